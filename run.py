#!/venv/bin/python
"""CLI of the eolib-python deterministic-simulation checks.

  run.py check <ID> [--tier quick|thorough] [--seed N] [--repo /repo]
  run.py replay <file> [--repo /repo]
  run.py setup
  run.py selftest-determinism [--ids C05,C09] [--n 200]
  run.py list
"""

import argparse
import json
import os
import subprocess
import sys

sys.dont_write_bytecode = True
HERE = os.path.dirname(os.path.abspath(__file__))
sys.path.insert(0, HERE)

from sim import core  # noqa: E402


def cmd_check(args):
    tier = args.tier or os.environ.get("VERIF_TIER") or "quick"
    seed = args.seed if args.seed is not None else int(os.environ.get("VERIF_SEED", "1") or 1)
    code = core.run_check(args.id, tier=tier, verif_seed=seed, repo=args.repo,
                          workers=args.workers, budget_s=args.budget, max_plans=args.max_plans,
                          write_evidence=not args.no_evidence)
    return code


def cmd_replay(args):
    ok, res, doc = core.replay(args.file, repo=args.repo)
    if ok:
        if doc.get("trace_digest") and doc["trace_digest"] != res.digest:
            # The same oracle fails with the same signature, but the recorded events differ: what the code under
            # test returned depends on something the plan does not determine (e.g. object addresses).  That is
            # itself part of the finding; the harness is deterministic (selftest-determinism, double runs).
            print("NOTE: same violation, different trace digest - the code under test behaves nondeterministically")
        print(f"VIOLATION property={doc['property']} replay={os.path.abspath(args.file)}")
        return 1
    print("replay: violation did not reproduce on this tree")
    if doc.get("reproducible") is False:
        print("NOTE: recorded as observed once and not reproducible from its plans (state outside the plan)")
    return 0


def cmd_setup(args):
    # Nothing to build: the framework is pure Python on /venv's interpreter.  Verify that.
    import importlib
    for name in core.CHECKS.values():
        try:
            importlib.import_module(name)
        except ModuleNotFoundError as e:
            if e.name and e.name.startswith("sim.checks"):
                continue
            raise
    from sim import workspace
    with workspace.scratch_session():
        ws = workspace.Workspace(args.repo)
        ws.load_tree(workspace.skeleton_tree())
        ws.cleanup()
    print("setup ok")
    return 0


def cmd_digests(args):
    seed = args.seed if args.seed is not None else int(os.environ.get("VERIF_SEED", "1") or 1)
    rows = core.digests(args.id, args.tier or "quick", seed, args.repo, args.n, args.workers or 1)
    for r in rows:
        print(*r)
    return 0


def cmd_selftest_determinism(args):
    ids = args.ids.split(",") if args.ids else sorted(core.CHECKS)
    bad = 0
    for cid in ids:
        outs = []
        n_for = args.n or getattr(core.load_check(cid), "SELFTEST_N", 500)
        for hashseed, workers in (("0", 1), ("12345", 16), ("777", 4)):
            env = dict(os.environ, PYTHONHASHSEED=hashseed)
            p = subprocess.run([core.PYTHON, os.path.join(HERE, "run.py"), "digests", cid, "--n", str(n_for),
                                "--workers", str(workers), "--repo", args.repo],
                               capture_output=True, text=True, env=env)
            if p.returncode != 0:
                print(cid, "digests failed:", p.stderr[-2000:])
                bad += 1
                break
            outs.append(p.stdout)
        else:
            same = all(o == outs[0] for o in outs)
            print(f"{cid}: {n_for} seeds x 3 fresh interpreters (hash seeds 0/12345/777, workers 1/16/4): "
                  f"{'identical' if same else 'DIVERGED'}")
            if not same:
                bad += 1
                a, b = outs[0].splitlines(), next(o for o in outs if o != outs[0]).splitlines()
                for x, y in zip(a, b):
                    if x != y:
                        print("  first divergence:", x, "|", y)
                        break
    return 2 if bad else 0


def main():
    ap = argparse.ArgumentParser()
    sub = ap.add_subparsers(dest="cmd", required=True)
    p = sub.add_parser("check")
    p.add_argument("id")
    p.add_argument("--tier", choices=["quick", "thorough"])
    p.add_argument("--seed", type=int)
    p.add_argument("--repo", default="/repo")
    p.add_argument("--workers", type=int)
    p.add_argument("--budget", type=float)
    p.add_argument("--max-plans", type=int)
    p.add_argument("--no-evidence", action="store_true")
    p.set_defaults(fn=cmd_check)
    p = sub.add_parser("replay")
    p.add_argument("file")
    p.add_argument("--repo", default="/repo")
    p.add_argument("--stamp", action="store_true")
    p.set_defaults(fn=cmd_replay)
    p = sub.add_parser("setup")
    p.add_argument("--repo", default="/repo")
    p.set_defaults(fn=cmd_setup)
    p = sub.add_parser("digests")
    p.add_argument("id")
    p.add_argument("--tier")
    p.add_argument("--seed", type=int)
    p.add_argument("--n", type=int, default=200)
    p.add_argument("--workers", type=int, default=1)
    p.add_argument("--repo", default="/repo")
    p.set_defaults(fn=cmd_digests)
    p = sub.add_parser("selftest-determinism")
    p.add_argument("--ids")
    p.add_argument("--n", type=int, default=0)
    p.add_argument("--repo", default="/repo")
    p.set_defaults(fn=cmd_selftest_determinism)
    p = sub.add_parser("list")
    p.set_defaults(fn=lambda a: print("\n".join(sorted(core.CHECKS))) or 0)
    args = ap.parse_args()
    sys.exit(args.fn(args))


if __name__ == "__main__":
    main()
