"""Seeded generator of JSON value trees for the classes of a parsed spec (valid by default).

value tree:  {"cls": dotted class name, "f": {field: value}}
value:       int | bool | str | None | [value, ...] | {"enum": name, "v": int} | {"blob": hex} | value tree
"""

from ..models.codec_model import LIMITS
from .values import gen_string, gen_int_in_range


def _case_values(spec, ins_switch, field_type):
    kind, base, wire = spec.resolve(field_type)
    out = []
    for c in ins_switch.cases:
        if c.default:
            continue
        if kind == "enum" and not c.value.lstrip("-").isdigit():
            out.append(spec.enums[base].by_name[c.value])
        else:
            out.append(int(c.value))
    return out


class ValueGen:
    def __init__(self, spec, rng, max_array=4, p_none=0.35, p_unknown_enum=0.25):
        self.spec, self.rng = spec, rng
        self.max_array = max_array
        self.p_none = p_none
        self.p_unknown_enum = p_unknown_enum

    def gen_class(self, cd, depth=0):
        fields = {}
        bias = {}
        self._scan_switches(cd.body, bias)
        state = {"missing": False}
        self._gen_body(cd, cd.body, fields, bias, state, depth)
        return {"cls": cd.name, "f": fields}

    def _scan_switches(self, body, bias, types=None):
        types = types if types is not None else {}
        for ins in body:
            if ins.tag == "field" and ins.name:
                types[ins.name] = ins.type
            elif ins.tag == "chunked":
                self._scan_switches(ins.body, bias, types)
            elif ins.tag == "switch" and ins.field in types:
                bias[ins.field] = _case_values(self.spec, ins, types[ins.field])

    def _gen_body(self, cd, body, fields, bias, state, depth):
        rng = self.rng
        for ins in body:
            if ins.tag == "field" and ins.name is not None:
                if ins.optional and (state["missing"] or rng.random() < self.p_none):
                    state["missing"] = True
                    fields[ins.name] = None
                    continue
                if ins.value is not None:
                    fields[ins.name] = self._constant(ins)
                    continue
                fields[ins.name] = self.gen_value(ins.type, ins, bias.get(ins.name), depth, body_of=cd)
            elif ins.tag == "array":
                if ins.optional and (state["missing"] or rng.random() < self.p_none):
                    state["missing"] = True
                    fields[ins.name] = None
                    continue
                if ins.length is not None and ins.length.isdigit():
                    n = int(ins.length)
                elif ins.length is not None:
                    lo, hi = self._len_bounds(cd, ins.length)
                    n = rng.randrange(lo, min(hi, max(lo, self.max_array)) + 1)
                else:
                    n = rng.choice([0, 1, 2, self.max_array])
                fields[ins.name] = [self.gen_value(ins.type, None, None, depth + 1, in_delimited=ins.delimited)
                                    for _ in range(n)]
            elif ins.tag == "length":
                if ins.optional and state["missing"]:
                    pass
            elif ins.tag == "break":
                state["missing"] = False        # optional fields of the next chunk are present or absent on their own
            elif ins.tag == "chunked":
                self._gen_body(cd, ins.body, fields, bias, state, depth)
            elif ins.tag == "switch":
                fields[ins.field + "_data"] = self._gen_case(ins, fields.get(ins.field), depth)

    def _constant(self, ins):
        kind, base, wire = self.spec.resolve(ins.type)
        if kind == "int":
            return int(ins.value)
        if kind == "bool":
            return ins.value == "true"
        return ins.value

    def _find_length(self, cd, name):
        def walk(body):
            for ins in body:
                if ins.tag == "length" and ins.name == name:
                    return ins
                if ins.tag == "chunked":
                    r = walk(ins.body)
                    if r is not None:
                        return r
            return None
        return walk(cd.body)

    def _len_bounds(self, cd, length_name):
        li = self._find_length(cd, length_name)
        lim = LIMITS[self.spec.resolve(li.type)[2]]
        lo = max(0, li.offset)
        hi = lim - 1 + li.offset
        return lo, max(lo, hi)

    def _gen_case(self, ins, switch_value, depth):
        if isinstance(switch_value, dict) and "enum" in switch_value:
            enum = self.spec.enums[switch_value["enum"]]
            key = switch_value["v"]
        else:
            enum, key = None, switch_value
        chosen = None
        for c in ins.cases:
            if c.default:
                chosen = c
                break
            if enum is not None and not c.value.lstrip("-").isdigit():
                match = enum.by_name.get(c.value) == key
            else:
                match = key is not None and int(c.value) == key
            if match:
                chosen = c
                break
        if chosen is None or chosen.body is None:
            return None
        return self.gen_class(chosen.body, depth + 1)

    def gen_value(self, type_string, ins, bias, depth, body_of=None, in_delimited=False):
        rng = self.rng
        kind, base, wire = self.spec.resolve(type_string)
        if kind == "int":
            if bias and rng.random() < 0.7:
                v = rng.choice(bias)
                if 0 <= v < LIMITS[wire]:
                    return v
            return gen_int_in_range(rng, wire)
        if kind == "bool":
            return rng.random() < 0.5
        if kind == "enum":
            enum = self.spec.enums[base]
            lim = LIMITS[wire]
            if bias and rng.random() < 0.7:
                v = rng.choice(bias)
                if 0 <= v < lim:
                    return {"enum": base, "v": v}
            if rng.random() < self.p_unknown_enum:
                return {"enum": base, "v": gen_int_in_range(rng, wire)}
            ords = [o for _, o in enum.values if o < lim]
            return {"enum": base, "v": rng.choice(ords) if ords else 0}
        if kind == "string":
            enc = base == "encoded_string"
            if ins is not None and ins.length is not None:
                if ins.length.isdigit():
                    n = int(ins.length)
                    if ins.padded:
                        return gen_string(rng, max_len=n, allow_y=False, allow_tilde=not enc)
                    s = gen_string(rng, max_len=n, min_len=n, allow_tilde=not enc)
                    return (s + "x" * n)[:n]
                lo, hi = self._len_bounds(body_of, ins.length)
                hi = min(hi, max(lo, 10))
                s = gen_string(rng, max_len=hi, min_len=lo, allow_tilde=not enc, allow_y=not ins.padded)
                return (s + "x" * lo)[: max(lo, len(s))]
            return gen_string(rng, max_len=8, allow_tilde=not enc)
        if kind == "blob":
            return {"blob": bytes(rng.randrange(256) for _ in range(rng.randrange(0, 6))).hex()}
        return self.gen_class(self.spec.structs[base], depth + 1)
