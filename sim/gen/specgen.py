"""Seeded generator of complete, valid eo-protocol XML spec trees (swarm-style feature mix).

The generator obeys every grammar rule the code generator enforces and stays outside the
degenerate classes the properties exclude (DESIGN 2.1).  Output: {relative path: XML text}.
"""

import keyword
from xml.sax.saxutils import escape

from ..models.spec_model import Spec

DIRS = ["", "map", "net", "net/client", "net/server", "pub", "pub/server"]
PARENTS = {"": [""], "map": ["", "map"], "net": ["", "net"], "pub": ["", "pub"],
           "net/client": ["", "net", "net/client"], "net/server": ["", "net", "net/server"],
           "pub/server": ["", "pub", "pub/server"]}

INT_TYPES = ["byte", "char", "short", "three", "int"]

WORDS = ["Map", "Item", "Npc", "Spell", "Chest", "Door", "Quest", "Shop", "Guild", "Party", "Trade", "Bank",
         "Board", "Skill", "Stat", "Warp", "Tile", "Sign", "Face", "Level", "Admin", "Paper", "Coord", "Big",
         "Entry", "Info", "Record", "Change", "Update", "List", "Reply", "Pair", "Unit", "Zone", "Hair", "Emote",
         # directory names as name parts: module names that start with (or equal) a package name
         "Client", "Server", "Net", "Pub", "Data"]
ACRONYMS = ["NPC", "EO", "ID", "HP", "TP", "AB", "PK", "X", "Y2", "A", "B3D", "HTTPReply", "EIF", "ESF"]
FIELD_WORDS = ["alpha", "bravo", "count", "delta", "echo", "flag", "gold", "hp", "item_id", "job", "kind", "level",
               "mode", "name", "owner", "price", "quantity", "rank", "slot", "title", "unit", "vitality", "weight",
               "x", "y", "zone", "amount", "body", "code", "dir", "extra", "first", "guild_tag", "hair_style",
               # legal names that a generated class might one day want for something of its own
               "hash", "repr", "cache", "size", "fields", "value", "values", "key", "id", "type", "wire",
               "length", "reader_position", "self_", "cls_", "old_mode",
               # members of generated PACKET classes: legal field names in structures and case data (kept out of packets below)
               "family", "action", "write"]
# NOT generated: field names equal to a builtin that the generated methods call (len, range, int, bytes, tuple, str):
# they become parameters / locals that shadow it (observed: a field named `len` makes deserialize raise TypeError) -
# identifiers colliding with generated code, degenerate like the locals `reader`, `writer`, `data`, `result`, `i`
ENUM_VALUE_WORDS = ["None", "Ok", "Fail", "Male", "Female", "Up", "Down", "Left", "Right", "Normal", "Hidden",
                    "Admin", "Guest", "Open", "Closed", "Red", "Green", "Blue", "Big", "Small", "A", "B2", "NPC",
                    "OnlyOne", "Busy", "Full", "Empty", "Used", "Unknown", "Other", "Invalid"]
# class names that collide with names the generated modules import or with public classes of the library
FORBIDDEN_TYPE_NAMES = {
    "Optional", "Union", "Iterable", "EoWriter", "EoReader", "SerializationError", "IntEnum", "Packet",
    "ProtocolEnumMeta", "PacketFamily", "PacketAction", "None", "True", "False", "Cast", "Annotations",
    "Generated", "SequenceStart", "PacketSequencer", "AccountReplySequenceStart", "InitSequenceStart", "PingSequenceStart",
}
# type names whose MODULE name equals a documented package, module or function of the library (legal: only the
# class is exported); a few (directory, name) pairs would put a module next to a package of the same name
COLLISION_NAMES = ["Data", "Encrypt", "Protocol", "Net", "Map", "Pub", "Client", "Server", "Interleave", "Deinterleave",
                   "FlipMsb", "SwapMultiples", "EncodeNumber", "DecodeNumber", "EncodeString", "DecodeString",
                   "ServerVerificationHash", "EoNumericLimits", "NumberEncodingUtils", "EncryptionUtils",
                   # names of helpers that leak into the eolib namespace through the static star-imports
                   "ABC", "EnumMeta", "Random",
                   # names a future generated module might import from typing / collections.abc / the library
                   "Sequence", "Mapping", "List", "Dict", "Any", "Callable", "Tuple", "Set", "Final", "Literal", "Enum",
                   "Path", "Bytes", "Str", "Int", "Bool", "Object", "Self", "Writer", "Reader",
                   # soft keywords and builtins as module names (match.py, case.py, print.py ...)
                   # names of the per-switch aliases generated inside classes (<Field>Data)
                   "KindData", "ModeData", "CodeData", "LevelData", "RankData", "FlagData", "JobData", "UnitData", "ZoneData",
                   "Match", "Case", "Type", "Print", "Len", "Id", "Input", "Open", "Property", "Super", "Async0"]
FILESYSTEM_COLLISIONS = {"": {"map", "net", "pub"}, "net": {"client", "server"}, "pub": {"server"}}
FAMILIES = ["Connection", "Account", "Character", "Login", "Welcome", "Walk", "Face", "Chair", "Emote", "Attack",
            "Spell", "Shop", "Item", "StatSkill", "Global", "Talk", "Warp", "Jukebox", "Players", "Avatar", "Party",
            "Refresh", "NPC", "PlayerRange", "NPCRange", "Range", "Paperdoll", "Effect", "Trade", "Chest", "Door",
            "Message", "Bank", "Locker", "Barber", "Guild", "Music", "Sit", "Recover", "Board", "Cast", "Arena",
            "Priest", "Marriage", "AdminInteract", "Citizen", "Quest", "Book", "Error", "Init"]
ACTIONS = ["Request", "Accept", "Reply", "Remove", "Agree", "Create", "Add", "Player", "Take", "Use", "Buy", "Sell",
           "Open", "Close", "Msg", "Spec", "Admin", "List", "Tell", "Report", "Announce", "Server", "Drop", "Junk",
           "Obtain", "Get", "Kick", "Rank", "TargetSelf", "TargetOther", "TargetGroup", "Dialog", "Ping", "Pong",
           "Net242", "Net243", "Net244", "Error", "Config", "Init"]


class Knobs:
    """Per-tree feature probabilities (swarm testing: each tree switches features on and off)."""

    def __init__(self, rng, profile="full"):
        def p(x):
            return x if rng.random() < 0.8 else 0.0

        self.profile = profile
        self.n_types = rng.choice([6, 10, 16, 24]) if profile == "full" else rng.choice([3, 5, 8])
        self.p_chunked = p(0.35)
        self.p_switch = p(0.3)
        self.p_array = p(0.3)
        self.p_length = p(0.3)
        self.p_optional = p(0.3)
        self.p_dummy = p(0.1)
        self.p_hardcoded = p(0.12)
        self.p_named_hardcoded_bool = p(0.15)
        self.p_struct_field = p(0.3)
        self.p_enum_field = p(0.3)
        self.p_blob = p(0.08)
        self.p_unbounded_mid = p(0.05)
        self.p_comment = p(0.2)
        self.p_override = p(0.2)
        self.p_optional_array = p(0.3)
        self.p_optional_length_ref = p(0.15)
        self.upward_refs = False
        self.sibling_refs = rng.random() < 0.5   # types may refer to types of directories earlier in ORDER
        self.net_last = rng.random() < 0.3       # net types may refer to net/client and net/server types (not vice versa)
        self.p_collision_name = 0.25 if rng.random() < 0.35 else 0.0
        self.p_odd_spelling = 0.4 if rng.random() < 0.2 else 0.0   # ordinals spelled 007 / +7 (the same integers)


class TypeInfo:
    def __init__(self, name, kind, path):
        self.name, self.kind, self.path = name, kind, path
        self.values = []            # enums: [(name, ordinal)]
        self.underlying = None
        self.min_size = 0           # structs: bytes surely consumed when data is available
        self.bounded = True
        self.fixed = None
        self.depth = 0
        self.array_depth = 0        # nesting of data-driven loops inside
        self.weight = 1             # worst-case primitive reads of one hostile deserialization
        self.first_consumes = False # first instruction surely reads >= 1 byte when data remains
        self.first_plain = False    # ... and that read happens outside any <chunked> section


class SpecGen:
    def __init__(self, rng, profile="full", knobs=None):
        self.rng = rng
        self.k = knobs or Knobs(rng, profile)
        self.types = {}
        self.by_dir = {d: [] for d in DIRS}
        self.used_lower = set(n.lower() for n in FORBIDDEN_TYPE_NAMES)
        self.used_snake = set()
        self.xml = {d: [] for d in DIRS}

    # ---- names ---------------------------------------------------------------------------
    def type_name(self, path=""):
        rng = self.rng
        for _ in range(200):
            if rng.random() < self.k.p_collision_name:
                name = rng.choice(COLLISION_NAMES)
                if (name.lower() not in self.used_lower and _snake(name) not in self.used_snake
                        and _snake(name) not in FILESYSTEM_COLLISIONS.get(path, ())):
                    self.used_lower.add(name.lower())
                    self.used_snake.add(_snake(name))
                    return name
            parts = []
            for _ in range(rng.choice([1, 2, 2, 3])):
                parts.append(rng.choice(ACRONYMS) if rng.random() < 0.25 else rng.choice(WORDS))
            name = "".join(parts)
            if rng.random() < 0.15:
                name += str(rng.randrange(0, 100))
            if not name[0].isalpha():
                continue
            low = name.lower()
            snake = _snake(name)
            if low in self.used_lower or snake in self.used_snake or keyword.iskeyword(snake) or keyword.iskeyword(name):
                continue
            if snake in FILESYSTEM_COLLISIONS.get(path, ()) or snake == "packet":
                continue
            if name.endswith("ClientPacket") or name.endswith("ServerPacket"):
                continue
            self.used_lower.add(low)
            self.used_snake.add(snake)
            return name
        raise RuntimeError("name space exhausted")

    # ---- enums ---------------------------------------------------------------------------
    def gen_enum(self, path, name=None, values=None, underlying=None):
        rng = self.rng
        name = name or self.type_name(path)
        t = TypeInfo(name, "enum", path)
        t.underlying = underlying or rng.choice(["byte", "char", "char", "short", "three", "int"])
        limit = {"byte": 256, "char": 253, "short": 64009, "three": 16194277, "int": 4097152081}[t.underlying]
        if values is None:
            n = rng.choice([1, 2, 3, 5, 8, 12])
            names = rng.sample(ENUM_VALUE_WORDS, min(n, len(ENUM_VALUE_WORDS)))
            dense = rng.random() < 0.6
            ords = set()
            values = []
            nxt = rng.choice([0, 0, 1])
            for vn in names:
                if dense:
                    o = nxt
                    nxt += 1
                else:
                    o = rng.choice([rng.randrange(0, min(limit, 300)), rng.randrange(0, limit), limit - 1, 0, 252, 253])
                if o in ords or o >= limit:
                    continue
                ords.add(o)
                values.append((vn, o))
            if not values:
                values = [("Only", 0)]
            if rng.random() < 0.08 and t.underlying in ("byte", "char", "short") and "Beyond" not in [v for v, _ in values]:
                # an ordinal the declared type cannot carry (legal: fields may override the underlying type)
                values.append(("Beyond", limit + rng.choice([0, 1, 47])))
            if rng.random() < 0.4:
                rng.shuffle(values)     # declaration order need not follow the ordinals
        t.values = values
        t.min_size = {"byte": 1, "char": 1, "short": 2, "three": 3, "int": 4}[t.underlying]
        t.fixed = t.min_size
        t.first_consumes = True
        self._register(t)
        lines = [f'    <enum name="{name}" type="{t.underlying}">']
        if rng.random() < self.k.p_comment:
            lines.append(f"        <comment>{escape(self.comment())}</comment>")
        for vn, o in values:
            if self.k.p_odd_spelling and rng.random() < self.k.p_odd_spelling:
                o = rng.choice([f"{o:03d}", f"+{o}", f"0{o}", f"{o:05d}"])
            if rng.random() < self.k.p_comment / 2:
                lines.append(f'        <value name="{vn}">{o}<comment>{escape(self.comment())}</comment></value>')
            else:
                lines.append(f'        <value name="{vn}">{o}</value>')
        lines.append("    </enum>")
        self.xml[path].append("\n".join(lines))
        return t

    def comment(self):
        rng = self.rng
        pool = ["The thing", "Sent when x < y & z > 0", "It's a \"quoted\" word", "Line one\nline two",
                "café — naïve", "Value is 100% certain", "See <other> for details", "a 'b' c",
                'The client shows "Player not found"', "ends with an apostrophe'"]
        return rng.choice(pool)

    def _register(self, t):
        self.types[t.name] = t
        self.by_dir[t.path].append(t)

    # ---- visible types -------------------------------------------------------------------
    def visible(self, path, kind):
        if self.k.upward_refs:
            dirs = DIRS
        elif self.k.net_last:
            dirs = ORDER_NET_LAST[: ORDER_NET_LAST.index(path) + 1]
        elif self.k.sibling_refs:
            dirs = ORDER[: ORDER.index(path) + 1]
        else:
            dirs = PARENTS[path]
        return [t for d in dirs for t in self.by_dir[d] if t.kind == kind]

    # ---- bodies --------------------------------------------------------------------------
    def gen_body(self, path, depth, chunked, in_case, used_names, budget, array_depth_left, wb=None):
        """returns (xml lines, info dict)"""
        rng, k = self.rng, self.k
        lines = []
        info = {"min_size": 0, "bounded": True, "fixed": 0, "first_consumes": None, "array_depth": 0,
                "first_plain": None}
        wb = wb if wb is not None else [WEIGHT_LIMIT]
        self._wb = wb
        n = rng.choice([0, 1, 1, 2, 3, 4, 6]) if depth > 0 else rng.choice([1, 2, 3, 4, 6, 8])
        n = min(n, budget)
        indent = "    " * (2 + depth)
        if (depth == 0 and rng.random() < 0.06) or (in_case and depth <= 2 and rng.random() < 0.08):
            # a class without constructor arguments: nothing but unnamed constants and/or a dummy
            for _ in range(rng.choice([0, 1, 2])):
                t = rng.choice(["byte", "char", "short"])
                lines.append(f'{indent}<field type="{t}">{rng.randrange(0, 253)}</field>')
                info["min_size"] += SIZE[t]
            if not lines or rng.random() < 0.5:
                lines.append(f'{indent}<dummy type="byte">{rng.randrange(1, 253)}</dummy>')
            info["first_consumes"] = True
            info["first_plain"] = not chunked
            info["fixed"] = None
            info["ended"] = True
            info["reached_optional"] = False
            return lines, info
        reached_optional = False
        ended = False          # dummy emitted / unbounded trailing item: nothing may follow
        switchable = []        # (field name, kind, enum TypeInfo|None) not yet switched on
        pending_len = None
        indent = "    " * (2 + depth)

        def name():
            for _ in range(100):
                w = rng.choice(FIELD_WORDS)
                if rng.random() < 0.3:
                    w += str(rng.randrange(2, 10))
                if w not in used_names and not keyword.iskeyword(w):
                    used_names.add(w)
                    return w
            raise RuntimeError("field names exhausted")

        def note(consumes_first, min_size, fixed, bounded, plain=None):
            if info["first_consumes"] is None:
                info["first_consumes"] = consumes_first
                info["first_plain"] = bool(consumes_first) and (not chunked if plain is None else plain)
            info["min_size"] += min_size
            if fixed is None or info["fixed"] is None:
                info["fixed"] = None
            else:
                info["fixed"] += fixed
            info["bounded"] = bounded

        def comment_line():
            if rng.random() < k.p_comment:
                return f"<comment>{escape(self.comment())}</comment>"
            return ""

        i = 0
        while i < n and not ended:
            i += 1
            r = rng.random()
            # ---- break (resets optional state)
            if chunked and r < 0.12 and lines:
                lines.append(f"{indent}<break/>")
                reached_optional = False
                note(False, 0, None, True)
                continue
            # ---- nested chunked
            if (r < 0.12 + k.p_chunked * 0.5 and depth < (5 if in_case else 3) and not reached_optional
                    and (not chunked or rng.random() < (0.6 if in_case else 0.3))):
                sub, sinfo = self.gen_body(path, depth + 1, True, in_case, used_names, max(1, budget // 2),
                                           array_depth_left, wb)
                self._wb = wb
                lines.append(f"{indent}<chunked>")
                lines.extend(sub)
                lines.append(f"{indent}</chunked>")
                note(bool(sinfo["first_consumes"]), sinfo["min_size"], None, sinfo["bounded"], plain=False)
                info["array_depth"] = max(info["array_depth"], sinfo["array_depth"])
                if sinfo.get("ended"):
                    ended = True
                if sinfo.get("reached_optional"):
                    reached_optional = True
                continue
            # ---- switch
            if switchable and rng.random() < k.p_switch and depth < 3 and not reached_optional:
                fname, fkind, enum = switchable.pop(rng.randrange(len(switchable)))
                sw, sinfo = self.gen_switch(path, depth, chunked, fname, fkind, enum, budget, array_depth_left, wb)
                self._wb = wb
                lines.extend(sw)
                note(False, 0, None, sinfo["bounded"])
                info["array_depth"] = max(info["array_depth"], sinfo["array_depth"])
                if sinfo["reached_optional"]:
                    reached_optional = True
                if sinfo["ended"]:
                    ended = True
                continue
            # ---- dummy
            if rng.random() < k.p_dummy and not reached_optional and (not lines or rng.random() < 0.5):
                t = rng.choice(["byte", "char", "short"])
                v = rng.randrange(0, 253)
                if rng.random() < 0.1:
                    t, v = "string", rng.choice(["x", "no", "dummy"])
                dc = f"<comment>{escape(self.comment())}</comment>" if rng.random() < k.p_comment else ""
                lines.append(f'{indent}<dummy type="{t}">{v}{dc}</dummy>')
                note(False, 0, {"byte": 1, "char": 1, "short": 2}.get(t), t != "string")
                ended = True
                continue
            optional = reached_optional or (rng.random() < k.p_optional and i >= n - 1 and not in_case_blocks_optional(in_case))
            opt_attr = ' optional="true"' if optional else ""
            # ---- array
            if rng.random() < k.p_array and array_depth_left > 0:
                made = self.gen_array(path, indent, name, chunked, optional, opt_attr, array_depth_left, comment_line)
                if made is not None:
                    alines, ainfo = made
                    lines.extend(alines)
                    note(False, 0, ainfo["fixed"], ainfo["bounded"])
                    info["array_depth"] = max(info["array_depth"], ainfo["array_depth"])
                    if optional:
                        reached_optional = True
                    if not ainfo["bounded"] and rng.random() > k.p_unbounded_mid:
                        if chunked and rng.random() < 0.6 and not optional:
                            lines.append(f"{indent}<break/>")
                            reached_optional = False
                        else:
                            ended = True
                    continue
            # ---- length + string
            if rng.random() < k.p_length:
                lname = name()
                ltype = rng.choice(["byte", "char", "char", "short", "three", "int"])
                off = rng.choice([0, 0, 0, 1, -1, 2, -2])
                offa = f' offset="{off}"' if off else ""
                fname = name()
                stype = rng.choice(["string", "encoded_string"])
                both_optional = optional
                second_optional = optional or (rng.random() < k.p_optional_length_ref and i >= n - 1)
                lines.append(f'{indent}<length name="{lname}" type="{ltype}"{offa}{opt_attr}/>')
                lines.append(f'{indent}<field name="{fname}" type="{stype}" length="{lname}"'
                             + (' padded="true"' if rng.random() < 0.2 else "")
                             + (' optional="true"' if second_optional else "") + "/>")
                note(not both_optional, 0 if both_optional else SIZE[ltype], None, True)
                if second_optional:
                    reached_optional = True
                continue
            # ---- plain field
            made = self.gen_field(path, indent, name, chunked, optional, opt_attr, depth, comment_line)
            flines, finfo = made
            lines.extend(flines)
            note(finfo["first_consumes"] and not optional, 0 if optional else finfo["min_size"],
                 None if optional else finfo["fixed"], finfo["bounded"],
                 plain=(finfo["first_plain"] and not chunked) if "first_plain" in finfo else None)
            info["array_depth"] = max(info["array_depth"], finfo.get("array_depth", 0))
            if finfo.get("switchable") and not optional:
                switchable.append(finfo["switchable"])
            if optional:
                reached_optional = True
            if not finfo["bounded"] and rng.random() > k.p_unbounded_mid:
                if chunked and rng.random() < 0.6 and not optional:
                    lines.append(f"{indent}<break/>")
                    reached_optional = False
                else:
                    ended = True
        if info["first_consumes"] is None:
            info["first_consumes"] = False
        info["ended"] = ended
        info["reached_optional"] = reached_optional
        return lines, info

    def gen_field(self, path, indent, name, chunked, optional, opt_attr, depth, comment_line):
        rng, k = self.rng, self.k
        r = rng.random()
        structs = [t for t in self.visible(path, "struct") if t.depth < 3 and t.weight <= self._wb[0]]
        enums = self.visible(path, "enum")
        self._wb[0] -= 1
        cm = comment_line()
        close = f">{cm}</field>" if cm else "/>"
        # hardcoded
        if rng.random() < k.p_hardcoded and not optional:
            which = rng.random()
            if which < 0.35:
                t = rng.choice(INT_TYPES)
                v = rng.randrange(0, 253)
                if rng.random() < 0.5:
                    return [f'{indent}<field type="{t}">{v}</field>'], dict(first_consumes=True, min_size=SIZE[t], fixed=SIZE[t], bounded=True)
                fname = name()
                return ([f'{indent}<field name="{fname}" type="{t}">{v}</field>'],
                        dict(first_consumes=True, min_size=SIZE[t], fixed=SIZE[t], bounded=True))
            if which < 0.55:
                v = rng.choice(["true", "false"])
                if rng.random() < k.p_named_hardcoded_bool:
                    fname = name()
                    return ([f'{indent}<field name="{fname}" type="bool">{v}</field>'],
                            dict(first_consumes=True, min_size=1, fixed=1, bounded=True))
                return [f'{indent}<field type="bool">{v}</field>'], dict(first_consumes=True, min_size=1, fixed=1, bounded=True)
            s = rng.choice(["abc", "Hello", "x", "EO v28", "ok!", "\u00ffes", "na\u00efve"])
            stype = rng.choice(["string", "encoded_string"])
            named = f'name="{name()}" ' if rng.random() < 0.5 else ""
            if rng.random() < 0.12:
                # a constant string without a length attribute: runs to the end of the chunk / data
                return ([f'{indent}<field {named}type="{stype}">{s}</field>'],
                        dict(first_consumes=False, min_size=0, fixed=None, bounded=False))
            pad = ' padded="true"' if rng.random() < 0.3 else ""
            return ([f'{indent}<field {named}type="{stype}" length="{len(s)}"{pad}>{s}</field>'],
                    dict(first_consumes=True, min_size=len(s), fixed=len(s), bounded=True))
        fname = name()
        if r < k.p_struct_field and structs:
            t = rng.choice(structs)
            self._wb[0] -= t.weight
            return ([f'{indent}<field name="{fname}" type="{t.name}"{opt_attr}{close}'],
                    dict(first_consumes=t.first_consumes, min_size=t.min_size, fixed=t.fixed, bounded=t.bounded,
                         array_depth=t.array_depth, first_plain=t.first_plain))
        if r < k.p_struct_field + k.p_enum_field and enums:
            t = rng.choice(enums)
            tname = t.name
            size = t.min_size
            if rng.random() < k.p_override:
                under = rng.choice(INT_TYPES)
                tname = f"{t.name}:{under}"
                size = SIZE[under]
            return ([f'{indent}<field name="{fname}" type="{tname}"{opt_attr}{close}'],
                    dict(first_consumes=True, min_size=size, fixed=size, bounded=True, switchable=(fname, "enum", t)))
        r2 = rng.random()
        if r2 < 0.45:
            t = rng.choice(INT_TYPES)
            return ([f'{indent}<field name="{fname}" type="{t}"{opt_attr}{close}'],
                    dict(first_consumes=True, min_size=SIZE[t], fixed=SIZE[t], bounded=True, switchable=(fname, "int", None)))
        if r2 < 0.55:
            under = ""
            size = 1
            if rng.random() < k.p_override * 2:
                u = rng.choice(INT_TYPES)
                under, size = ":" + u, SIZE[u]
            return ([f'{indent}<field name="{fname}" type="bool{under}"{opt_attr}{close}'],
                    dict(first_consumes=True, min_size=size, fixed=size, bounded=True))
        if r2 < 0.55 + k.p_blob:
            return ([f'{indent}<field name="{fname}" type="blob"{opt_attr}{close}'],
                    dict(first_consumes=False, min_size=0, fixed=None, bounded=False))
        stype = rng.choice(["string", "encoded_string"])
        r3 = rng.random()
        if r3 < 0.35:
            return ([f'{indent}<field name="{fname}" type="{stype}"{opt_attr}{close}'],
                    dict(first_consumes=False, min_size=0, fixed=None, bounded=False))
        length = rng.choice([0, 1, 2, 3, 5, 8, 12]) if rng.random() < 0.15 else rng.choice([1, 2, 3, 5, 8, 12])
        pad = ' padded="true"' if rng.random() < 0.5 else ""
        return ([f'{indent}<field name="{fname}" type="{stype}" length="{length}"{pad}{opt_attr}{close}'],
                dict(first_consumes=length > 0, min_size=length, fixed=length, bounded=True))

    def gen_array(self, path, indent, name, chunked, optional, opt_attr, array_depth_left, comment_line):
        rng, k = self.rng, self.k
        if optional and rng.random() > k.p_optional_array:
            return None
        wleft = self._wb[0]
        structs = [t for t in self.visible(path, "struct") if t.depth < 3 and t.array_depth < array_depth_left
                   and t.min_size >= 1 and t.first_consumes and t.weight * 4 <= wleft]
        enums = self.visible(path, "enum")
        aname = name()
        delimited = chunked and rng.random() < 0.5
        # element type
        r = rng.random()
        el_struct = None
        if r < 0.4 and structs:
            el_struct = rng.choice(structs)
            rows = [t for t in structs if t.fixed is not None and t.array_depth >= 1]
            if rows and rng.random() < 0.4:
                el_struct = rng.choice(rows)      # a fixed-size structure that itself holds a counted array ("rows of cells")
            etype, efixed, ebounded, edepth = el_struct.name, el_struct.fixed, el_struct.bounded, el_struct.array_depth
        elif r < 0.55 and enums:
            t = rng.choice(enums)
            etype, efixed, ebounded, edepth = t.name, t.min_size, True, 0
            if rng.random() < k.p_override:
                under = rng.choice(INT_TYPES)
                etype, efixed = f"{t.name}:{under}", SIZE[under]
        elif r < 0.65 and delimited:
            etype, efixed, ebounded, edepth = rng.choice(["string", "encoded_string", "blob"]), None, False, 0
        elif r < 0.72:
            etype, efixed, ebounded, edepth = "bool", 1, True, 0
            if rng.random() < k.p_override * 2:
                under = rng.choice(INT_TYPES)
                etype, efixed = f"bool:{under}", SIZE[under]
        else:
            t = rng.choice(INT_TYPES)
            etype, efixed, ebounded, edepth = t, SIZE[t], True, 0
        if not ebounded and not delimited:
            return None
        if efixed == 0:
            return None
        ew = max(1, el_struct.weight if el_struct is not None else 1) + 1
        if ew * 4 > wleft:
            return None
        mode = rng.random()
        lines = []
        cm = comment_line()
        close = f">{cm}</array>" if cm else "/>"
        dl = ""
        if delimited:
            dl = ' delimited="true"'
            if rng.random() < 0.4:
                dl += ' trailing-delimiter="false"'
            elif rng.random() < 0.2:
                dl += ' trailing-delimiter="true"'
        if mode < 0.4:
            # length field; wide length types only for scalar elements, never for nested loops
            allowed = [t for t in ("byte", "char", "char", "short") if (LOOP_MAX[t] + 3) * ew <= wleft]
            if not allowed:
                return None
            ltype = rng.choice(allowed)
            self._wb[0] -= (LOOP_MAX[ltype] + 3) * ew
            lname = name()
            off = rng.choice([0, 0, 0, 1, -1, 2])
            offa = f' offset="{off}"' if off else ""
            lines.append(f'{indent}<length name="{lname}" type="{ltype}"{offa}{opt_attr}/>')
            lines.append(f'{indent}<array name="{aname}" type="{etype}" length="{lname}"{dl}{opt_attr}{close}')
            return lines, dict(fixed=None, bounded=ebounded, array_depth=edepth + 1)
        if mode < 0.6:
            n = rng.choice([0, 1, 2, 3, 4])
            self._wb[0] -= n * ew
            lines.append(f'{indent}<array name="{aname}" type="{etype}" length="{n}"{dl}{opt_attr}{close}')
            fixed = n * efixed if (efixed is not None and not optional and not delimited) else None
            return lines, dict(fixed=fixed, bounded=True, array_depth=edepth + 1)
        # no length: runs to the end of the chunk / data (a few hundred bytes at most on the simulated wire)
        if el_struct is not None and not delimited and el_struct.fixed is None and not el_struct.first_plain:
            # An element that starts inside its own <chunked> section reads nothing at a chunk boundary while
            # the enclosing `while remaining > 0` loop sees data: a zero-size element occurrence (degenerate;
            # the hang it causes is recorded as a known finding and probed by a directed case instead).
            return None
        if UNBOUNDED_ELEMENTS * ew > wleft:
            return None
        self._wb[0] -= UNBOUNDED_ELEMENTS * ew
        lines.append(f'{indent}<array name="{aname}" type="{etype}"{dl}{opt_attr}{close}')
        return lines, dict(fixed=None, bounded=False, array_depth=edepth + 1)

    def gen_switch(self, path, depth, chunked, fname, fkind, enum, budget, array_depth_left, wb):
        rng, k = self.rng, self.k
        indent = "    " * (2 + depth)
        lines = [f'{indent}<switch field="{fname}">']
        info = {"bounded": True, "array_depth": 0, "reached_optional": False, "ended": False}
        if fkind == "enum":
            names = [vn for vn, _ in enum.values if vn != "Default"]
            rng.shuffle(names)
            keys = names[: rng.choice([1, 2, 3, len(names)])]     # sometimes a case for every declared value
            if rng.random() < 0.3:
                ords = {o for _, o in enum.values}
                cand = [o for o in (0, 1, 7, 100, 250) if o not in ords]
                if cand:
                    keys.append(str(rng.choice(cand)))
        else:
            keys = [str(v) for v in rng.sample(range(0, 12), rng.choice([1, 2, 3]))]
        cases = [(kv, False) for kv in keys]
        if rng.random() < 0.4:
            cases.append((None, True))
        all_end = True
        spent = 0
        for kv, default in cases:
            attr = 'default="true"' if default else f'value="{kv}"'
            if rng.random() < 0.2:
                if rng.random() < k.p_comment:
                    lines.append(f"{indent}    <case {attr}><comment>{escape(self.comment())}</comment></case>")
                else:
                    lines.append(f"{indent}    <case {attr}/>")
                all_end = False
                continue
            cwb = [max(0, wb[0] // 2)]
            start_w = cwb[0]
            body, binfo = self.gen_body(path, depth + 2, chunked, True, set(), max(1, budget // 2), array_depth_left, cwb)
            spent = max(spent, start_w - cwb[0])
            if not body:
                lines.append(f"{indent}    <case {attr}/>")
                all_end = False
                continue
            lines.append(f"{indent}    <case {attr}>")
            if rng.random() < k.p_comment:
                lines.append(f"{indent}        <comment>{escape(self.comment())}</comment>")
            lines.extend(body)
            lines.append(f"{indent}    </case>")
            info["array_depth"] = max(info["array_depth"], binfo["array_depth"])
            info["bounded"] = info["bounded"] and binfo["bounded"]
            if binfo["reached_optional"]:
                info["reached_optional"] = True
            if binfo["ended"]:
                info["ended"] = True
        lines.append(f"{indent}</switch>")
        wb[0] -= spent
        return lines, info

    # ---- top-level definitions -----------------------------------------------------------
    def gen_struct(self, path):
        name = self.type_name(path)
        rng = self.rng
        if rng.random() < 0.03:
            # a struct element without any child (not even a comment)
            t = TypeInfo(name, "struct", path)
            t.min_size, t.fixed, t.bounded, t.first_consumes, t.first_plain, t.depth = 0, 0, True, False, False, 1
            self._register(t)
            self.xml[path].append(f'    <struct name="{name}"/>')
            return t
        wb = [rng.choice([300, 3000, WEIGHT_LIMIT])]
        w0 = wb[0]
        body, info = self.gen_body(path, 0, False, False, set(), 8, 2, wb)
        t = TypeInfo(name, "struct", path)
        t.weight = max(1, w0 - wb[0])
        t.min_size = info["min_size"]
        t.first_consumes = bool(info["first_consumes"])
        t.first_plain = bool(info["first_plain"])
        t.array_depth = info["array_depth"]
        t.depth = 1 + max([self.types[n].depth for n in self._refs(body)] or [0])
        lines = [f'    <struct name="{name}">']
        if rng.random() < self.k.p_comment:
            lines.append(f"        <comment>{escape(self.comment())}</comment>")
        lines.extend(body)
        lines.append("    </struct>")
        self._register(t)
        self.xml[path].append("\n".join(lines))
        # size class and boundedness follow the format rules (reference model), not ad-hoc bookkeeping
        spec = Spec(self.current_tree())
        t.fixed = spec.struct_fixed_size(name)
        t.bounded = spec.struct_bounded(name)
        return t

    def current_tree(self):
        tree = {}
        for d in DIRS:
            rel = (d + "/" if d else "") + "protocol.xml"
            body = "\n".join(self.xml[d])
            tree[rel] = '<?xml version="1.0" encoding="UTF-8"?>\n<protocol>\n' + body + ("\n" if body else "") + "</protocol>\n"
        return tree

    def _refs(self, body):
        import re
        out = []
        for line in body:
            m = re.search(r'type="([A-Za-z0-9]+)', line)
            if m and m.group(1) in self.types and self.types[m.group(1)].kind == "struct":
                out.append(m.group(1))
        return out

    def gen_packet(self, path, family, action):
        body, info = self.gen_body(path, 0, False, False, {"family", "action", "write"}, 8, 2, [WEIGHT_LIMIT])
        lines = [f'    <packet family="{family}" action="{action}">']
        if self.rng.random() < self.k.p_comment:
            lines.append(f"        <comment>{escape(self.comment())}</comment>")
        lines.extend(body)
        lines.append("    </packet>")
        self.xml[path].append("\n".join(lines))

    def gen_tree(self):
        rng, k = self.rng, self.k
        fams = rng.sample(FAMILIES, rng.choice([2, 3, 5]))
        acts = rng.sample(ACTIONS, rng.choice([2, 3, 5]))
        self.used_lower |= {"packetfamily", "packetaction"}
        self.gen_enum("net", "PacketFamily", [(f, i + 1) for i, f in enumerate(fams)], "byte")
        self.gen_enum("net", "PacketAction", [(a, i + 1) for i, a in enumerate(acts)], "byte")
        # types, shallow directories first so that deeper ones can refer to them
        order = ORDER_NET_LAST if k.net_last else ORDER
        weights = {"": 3, "map": 2, "pub": 2, "net": 3, "pub/server": 1, "net/client": 1, "net/server": 1}
        plan = []
        for _ in range(k.n_types):
            plan.append(rng.choices(order, [weights[d] for d in order])[0])
        plan.sort(key=order.index)
        if k.upward_refs:
            rng.shuffle(plan)
        for d in plan:
            if rng.random() < 0.3:
                self.gen_enum(d)
            else:
                self.gen_struct(d)
        for d in ("net/client", "net/server"):
            pairs = set()
            for _ in range(rng.choice([0, 1, 2, 4])):
                pair = (rng.choice(fams), rng.choice(acts))
                if pair in pairs:
                    continue
                pairs.add(pair)
                self.gen_packet(d, *pair)
        return self.current_tree()


ORDER = ["", "map", "pub", "net", "pub/server", "net/client", "net/server"]
# mutual references between two directories make the generated packages import each other (a package-level
# cycle the layout cannot support); one extra direction is safe and generated: net -> net/client, net/server
ORDER_NET_LAST = ["", "map", "pub", "pub/server", "net/client", "net/server", "net"]
WEIGHT_LIMIT = 120_000
LOOP_MAX = {"byte": 255, "char": 253, "short": 64009}
UNBOUNDED_ELEMENTS = 400
SIZE = {"byte": 1, "char": 1, "short": 2, "three": 3, "int": 4}


def in_case_blocks_optional(in_case):
    return False


def _snake(name):
    out = []
    for i, c in enumerate(name):
        if i > 0 and c.isupper() and ((i + 1 < len(name) and not name[i + 1].isupper()) or name[i - 1].islower()):
            out.append("_")
        out.append(c.lower())
    return "".join(out)


def add_rows(tree, rng):
    """"Rows of cells": a fixed-size structure that itself holds a counted array, used as the element of an array
    without a length (whose element count the generated reader derives from the element's size), once plain and
    once inside a chunk.  A shape the real protocol has (map files) and the random walk above rarely reaches."""
    n = rng.choice([2, 3, 4])
    cell = rng.choice(["char", "short", "three", "byte"])
    lead = rng.choice(["", '        <field name="owner" type="char"/>\n', '        <field name="owner" type="short"/>\n'])
    tail = rng.choice(["", '        <field name="mark" type="byte"/>\n'])
    xml = (f'    <struct name="RowOfCells">\n{lead}        <array name="cells" type="{cell}" length="{n}"/>\n{tail}    </struct>\n'
           f'    <struct name="RowsPlain">\n        <field name="tag" type="char"/>\n        <array name="rows" type="RowOfCells"/>\n    </struct>\n'
           f'    <struct name="RowsChunked">\n        <chunked>\n            <array name="rows" type="RowOfCells"/>\n            <break/>\n'
           f'            <field name="after" type="short"/>\n        </chunked>\n    </struct>\n')
    rel = rng.choice(sorted(tree))
    out = dict(tree)
    out[rel] = tree[rel].replace("</protocol>", xml + "</protocol>")
    return out


def add_twin_cases(tree, rng):
    """A switch whose cases hold the same instructions and differ only in what their <chunked> wrapper encloses
    (nothing, everything, the tail): "the same layout" on the wire, different modes while it is written and read."""
    length = rng.choice([2, 4, 7])
    num = rng.choice(["char", "short", "three"])
    text = f'<field name="label" type="{rng.choice(["string", "encoded_string"])}" length="{length}"/>'
    tail = f'<field name="amount" type="{num}"/>'
    ind = "                "
    cases = [f'{ind}{text}\n{ind}{tail}\n',
             f'{ind}<chunked>\n{ind}    {text}\n{ind}    {tail}\n{ind}</chunked>\n',
             f'{ind}{text}\n{ind}<chunked>\n{ind}    {tail}\n{ind}</chunked>\n',
             f'{ind}<chunked>\n{ind}    {text}\n{ind}</chunked>\n{ind}{tail}\n']
    rng.shuffle(cases)
    body = "".join(f'            <case value="{i + 1}">\n{c}            </case>\n' for i, c in enumerate(cases[:rng.choice([2, 3, 4])]))
    xml = (f'    <struct name="TwinCases">\n        <field name="which" type="char"/>\n        <switch field="which">\n{body}'
           f'        </switch>\n        <field name="after" type="char"/>\n    </struct>\n')
    rel = rng.choice(sorted(tree))
    out = dict(tree)
    out[rel] = tree[rel].replace("</protocol>", xml + "</protocol>")
    return out


def add_alias_named_type(tree, rng):
    """A type called like the alias a generated class keeps for a switch's case data (<Field>Data), declared in the
    same file as the class that switches on <field>: legal, and the two must not be confused anywhere."""
    import re
    rels = [rel for rel in sorted(tree) if '<switch field="' in tree[rel]]
    if not rels:
        return tree
    rel = rng.choice(rels)
    fields = sorted(set(re.findall(r'<switch field="([a-z0-9_]+)"', tree[rel])))
    name = "".join(p.capitalize() for p in rng.choice(fields).split("_")) + "Data"
    if any(f'name="{name}"' in x for x in tree.values()):
        return tree
    xml = f'    <struct name="{name}">\n        <field name="x" type="char"/>\n    </struct>\n'
    out = dict(tree)
    out[rel] = tree[rel].replace("</protocol>", xml + "</protocol>")
    return out


def add_reserved_enum(tree, rng):
    """An enum that is declared (with a comment) but has no values yet - a placeholder no field refers to: the
    generator emits a class whose body is the docstring, which imports fine."""
    rel = rng.choice(sorted(r for r in tree if "<protocol>" in tree[r]))
    if any('name="ReservedForLater"' in x for x in tree.values()):
        return tree
    xml = ('    <enum name="ReservedForLater" type="char">\n        <comment>Reserved; no values are assigned yet.</comment>\n'
           '    </enum>\n')
    out = dict(tree)
    out[rel] = tree[rel].replace("</protocol>", xml + "</protocol>")
    return out


def gen_tree(rng, profile="full", upward_refs=False):
    g = SpecGen(rng, profile)
    g.k.upward_refs = upward_refs
    tree = g.gen_tree()
    if rng.random() < 0.15 and not any("RowOfCells" in x for x in tree.values()):
        tree = add_rows(tree, rng)
    if rng.random() < 0.12 and not any("TwinCases" in x for x in tree.values()):
        tree = add_twin_cases(tree, rng)
    if rng.random() < 0.15:
        tree = add_alias_named_type(tree, rng)
    if rng.random() < 0.08:
        tree = add_reserved_enum(tree, rng)
    return tree
