"""Seeded generators of primitive values (boundary-biased integers, string pools)."""

from ..models.codec_model import LIMITS

ASCII = "abcxyzABC 0123!#$%&()*+,-./:;<=>?@[]^_`{|}"
HIGH = "€‚ƒ„…†‡ˆ‰Š‹ŒŽ‘’“”•–—˜™š›œžŸ¡¢£¤¥¦§¨©ª«¬®¯°±²³´µ¶·¸¹º»¼½¾¿ÀÁÂÆÇÈÉÑÒÓÖ×ØÙÜÝÞßàáâæçèéñòóö÷øùüýþ"
NON_CP1252 = "ĀāĂ中文кирил😀\u0081\u008d\u0090\x00\x7f\u0308\u030a\u212a\u212b\u1100\u1161\u0301\ufffd"   # incl. combining marks, Kelvin/Angstrom signs, jamo
Y_DIAERESIS = "ÿ"


def gen_string(rng, max_len=12, allow_y=True, allow_tilde=True, allow_non_cp1252=True, min_len=0):
    n = rng.choice([0, 0, 1, 1, 2, 3, 5, 8, max_len]) if rng.random() < 0.6 else rng.randrange(0, max_len + 1)
    n = max(min_len, min(n, max_len))
    style = rng.random()
    out = []
    for _ in range(n):
        r = rng.random()
        if style < 0.35:
            c = rng.choice(ASCII)
        elif r < 0.40:
            c = rng.choice(ASCII)
        elif r < 0.60:
            c = rng.choice(HIGH)
        elif r < 0.72 and allow_y:
            c = Y_DIAERESIS
        elif r < 0.80 and allow_tilde:
            c = "~"
        elif r < 0.90 and allow_non_cp1252:
            c = rng.choice(NON_CP1252)
        else:
            c = chr(rng.randrange(0x20, 0x7E))
        if c == "~" and not allow_tilde:
            c = "}"
        out.append(c)
    if style > 0.93 and allow_y and n:
        out = [Y_DIAERESIS] * n  # a string of nothing but y-diaeresis
    elif 0.88 < style <= 0.93 and allow_non_cp1252 and n >= 2:
        # not in Unicode normal form: base letter + combining mark (must NOT be composed by the library)
        out[-2:] = [rng.choice("eAoun"), rng.choice("\u0308\u030a\u0301\u0303")]
    return "".join(out)


def gen_int_in_range(rng, kind):
    lim = LIMITS[kind]
    r = rng.random()
    if r < 0.35:
        cands = [0, 1, 2, 251, 252, 253, 254, 255, 256, 64007, 64008, 64009, 64010, 16194276, 16194277,
                 16194278, lim - 2, lim - 1, lim // 2]
        v = rng.choice(cands)
        return v if 0 <= v < lim else lim - 1
    if r < 0.5:
        return rng.randrange(0, min(lim, 300))
    return rng.randrange(0, lim)


def gen_int_any(rng, kind):
    """in range, at the limit, just beyond, far beyond"""
    lim = LIMITS[kind]
    r = rng.random()
    if r < 0.55:
        return gen_int_in_range(rng, kind)
    if r < 0.75:
        return lim
    if r < 0.85:
        return lim + 1
    if r < 0.95:
        return lim + rng.randrange(2, 1000)
    return rng.choice([2**31, 2**32, 2**63, 2**64 + 5, 253**4, 253**4 + 1, 10**30])


class StringPool:
    """A few strings per run that are written repeatedly (same value through different methods, modes
    and writers): state that a writer or codec wrongly shares between calls only shows on a repeat."""

    def __init__(self, rng, n=3, p_reuse=0.4):
        self.rng = rng
        self.p_reuse = p_reuse
        self.items = [gen_string(rng, max_len=8, min_len=1) for _ in range(n)]

    def get(self, rng, allow_y=True, allow_tilde=True, **kw):
        if rng.random() < self.p_reuse:
            s = rng.choice(self.items)
            if (allow_y or "ÿ" not in s) and (allow_tilde or "~" not in s):
                lo, hi = kw.get("min_len", 0), kw.get("max_len", 12)
                if lo <= len(s) <= hi:
                    return s
        if "max_len" not in kw and rng.random() < 0.02:
            # a long string (fast paths for short or long inputs, size classes, 8-bit length fields)
            n = rng.choice([31, 32, 33, 64, 100, 255, 256, 300])
            return gen_string(rng, allow_y=allow_y, allow_tilde=allow_tilde, **dict(kw, max_len=n, min_len=n))
        return gen_string(rng, allow_y=allow_y, allow_tilde=allow_tilde, **kw)
