"""Scratch copy of the repository under test, generator invocation, module purge / import.

Nothing is ever generated into the repository itself: every check copies the *current
working tree* of the repo (src/eolib, protocol_code_generator, protocol.py) into a scratch
directory, writes an XML spec tree there, runs the real generator and imports the result
from the scratch copy (which is put in front of the editable /repo/src path entry).
"""

import atexit
import contextlib
import importlib
import io
import os
import shutil
import sys
import tempfile
from pathlib import Path

sys.dont_write_bytecode = True
os.environ.setdefault("PYTHONDONTWRITEBYTECODE", "1")

SCRATCH_PREFIX = "eolib-verif-"
SPEC_DIRS = [".", "map", "net", "net/client", "net/server", "pub", "pub/server"]

SKELETON_NET = """<?xml version="1.0" encoding="UTF-8"?>
<protocol>
    <enum name="PacketFamily" type="byte">
        <value name="Connection">1</value>
        <value name="Init">255</value>
    </enum>
    <enum name="PacketAction" type="byte">
        <value name="Request">1</value>
        <value name="Init">255</value>
    </enum>
</protocol>
"""
EMPTY_PROTOCOL = '<?xml version="1.0" encoding="UTF-8"?>\n<protocol>\n</protocol>\n'


def skeleton_tree():
    """The minimal spec tree with which `import eolib` works (relative path -> XML text)."""
    tree = {}
    for d in SPEC_DIRS:
        tree[os.path.normpath(os.path.join(d, "protocol.xml"))] = EMPTY_PROTOCOL
    tree[os.path.join("net", "protocol.xml")] = SKELETON_NET
    return tree


def scratch_base():
    """Directory under which scratch copies are made: the per-run directory announced by the driver
    (removed as a whole when the run ends), else tmpfs, else the temp dir."""
    root = os.environ.get("EOLIB_VERIF_SCRATCH")
    if root and os.path.isdir(root):
        return root
    base = "/dev/shm" if os.path.isdir("/dev/shm") and os.access("/dev/shm", os.W_OK) else None
    return base or tempfile.gettempdir()


class scratch_session:
    """Context manager used by every entry point: one scratch directory per run, inherited by all
    worker processes and their forked children through the environment, removed at the end (worker
    processes of a pool end with os._exit and never run their own clean-up)."""

    def __enter__(self):
        os.environ.pop("EOLIB_VERIF_SCRATCH", None)
        self.root = tempfile.mkdtemp(prefix=SCRATCH_PREFIX + "run-", dir=scratch_base())
        os.environ["EOLIB_VERIF_SCRATCH"] = self.root
        self._pid = os.getpid()
        return self.root

    def __exit__(self, *exc):
        if os.getpid() == self._pid:
            os.environ.pop("EOLIB_VERIF_SCRATCH", None)
            shutil.rmtree(self.root, ignore_errors=True)
        return False


def sweep_stale(max_age_s=3 * 3600):
    """Remove scratch directories left behind by killed runs (older than max_age_s)."""
    import time

    base = scratch_base()
    now = time.time()
    try:
        names = os.listdir(base)
    except OSError:
        return
    for name in names:
        if not name.startswith(SCRATCH_PREFIX):
            continue
        path = os.path.join(base, name)
        try:
            if now - os.stat(path).st_mtime > max_age_s:
                shutil.rmtree(path, ignore_errors=True)
        except OSError:
            pass


_IGNORE = shutil.ignore_patterns("__pycache__", "*.pyc", "_generated")


class Workspace:
    """A scratch copy of the repo's importable parts."""

    def __init__(self, repo="/repo"):
        self.repo = str(repo)
        self.root = tempfile.mkdtemp(prefix=SCRATCH_PREFIX, dir=scratch_base())
        self._owner_pid = os.getpid()
        atexit.register(self.cleanup)
        shutil.copytree(os.path.join(self.repo, "src", "eolib"), self.src_eolib, ignore=_IGNORE)
        shutil.copytree(
            os.path.join(self.repo, "protocol_code_generator"),
            os.path.join(self.root, "protocol_code_generator"),
            ignore=_IGNORE,
        )
        shutil.copy(os.path.join(self.repo, "protocol.py"), os.path.join(self.root, "protocol.py"))
        if os.path.exists(os.path.join(self.repo, "protocol_build_hook.py")):
            shutil.copy(os.path.join(self.repo, "protocol_build_hook.py"), os.path.join(self.root, "protocol_build_hook.py"))
        self._generator_cls = None
        self._tree_counter = 0

    # paths ---------------------------------------------------------------------------------
    @property
    def src(self):
        return os.path.join(self.root, "src")

    @property
    def src_eolib(self):
        return os.path.join(self.root, "src", "eolib")

    @property
    def generated_dir(self):
        return os.path.join(self.src_eolib, "protocol", "_generated")

    @property
    def xml_dir(self):
        return os.path.join(self.root, "eo-protocol", "xml")

    def cleanup(self):
        if os.getpid() != self._owner_pid:
            return
        shutil.rmtree(self.root, ignore_errors=True)

    # spec trees ----------------------------------------------------------------------------
    def write_tree(self, tree, xml_dir=None):
        xml_dir = xml_dir or self.xml_dir
        shutil.rmtree(xml_dir, ignore_errors=True)
        for rel in sorted(tree):
            path = os.path.join(xml_dir, rel)
            os.makedirs(os.path.dirname(path), exist_ok=True)
            with open(path, "w", encoding="utf-8") as f:
                f.write(tree[rel])
        return xml_dir

    def generator_class(self):
        """The real ProtocolCodeGenerator, imported from the scratch copy."""
        if self._generator_cls is None:
            if self.root not in sys.path:
                sys.path.insert(0, self.root)
            for name in [m for m in sys.modules if m.split(".")[0] == "protocol_code_generator"]:
                del sys.modules[name]
            importlib.invalidate_caches()
            mod = importlib.import_module("protocol_code_generator.generate.code_generator")
            assert mod.__file__.startswith(self.root), mod.__file__
            self._generator_cls = mod.ProtocolCodeGenerator
        return self._generator_cls

    def generate(self, tree, clean=True):
        """Write `tree`, run the real generator in-process into the scratch package."""
        self.write_tree(tree)
        if clean:
            shutil.rmtree(self.generated_dir, ignore_errors=True)
        gen = self.generator_class()(Path(self.xml_dir))
        with contextlib.redirect_stdout(io.StringIO()):
            gen.generate(Path(self.generated_dir))

    # importing -----------------------------------------------------------------------------
    def purge_modules(self):
        for name in [m for m in sys.modules if m == "eolib" or m.startswith("eolib.")]:
            del sys.modules[name]
        importlib.invalidate_caches()

    def activate(self):
        if sys.path[0] != self.src:
            if self.src in sys.path:
                sys.path.remove(self.src)
            sys.path.insert(0, self.src)

    def import_eolib(self):
        """Purge and import the scratch copy of eolib (with whatever is generated there)."""
        self.activate()
        self.purge_modules()
        mod = importlib.import_module("eolib")
        assert mod.__file__.startswith(self.root), mod.__file__
        return mod

    def load_tree(self, tree):
        """generate + import; returns the eolib module."""
        self.generate(tree)
        return self.import_eolib()


_current = None


def get_workspace(repo="/repo"):
    """Per-process workspace (created lazily; forked workers each create their own)."""
    global _current
    if _current is None or _current.repo != str(repo):   # a forked child re-uses its parent's scratch copy
        _current = Workspace(repo)
    return _current
