"""Shared harness for the checks that run on generated spec trees (C03, C14, C15, C19)."""

import importlib
import re
import xml.etree.ElementTree as ET

from .bridge import Bridge
from .models.spec_model import Spec
from .seams import make_faulty_reader, make_faulty_writer, HarnessError


class TreeRejected(Exception):
    """The real generator refused (or could not import) a tree the spec generator considers valid."""


class TreeEnv:
    def __init__(self, env, tree):
        self.spec = Spec(tree)
        try:
            env.load_tree(tree)
        except BaseException as e:  # generator or import failure
            err = TreeRejected(f"{type(e).__name__}: {e}")
            err.stage = getattr(env, "load_stage", None) or "generate"
            raise err from e
        self.EoReader = importlib.import_module("eolib.data.eo_reader").EoReader
        self.EoWriter = importlib.import_module("eolib.data.eo_writer").EoWriter
        self.SerializationError = importlib.import_module("eolib.protocol.serialization_error").SerializationError
        self.FaultyReader = make_faulty_reader(self.EoReader)
        self.FaultyWriter = make_faulty_writer(self.EoWriter)
        self.bridge = Bridge(self.spec)

    def top_classes(self):
        return [cd for cd in self.spec.classes.values() if cd.kind != "case"]

    def all_classes(self):
        return list(self.spec.classes.values())


def get_tree_env(env, tree):
    """One generator run + import per distinct tree per process (cached on the Env)."""
    key = ("treeenv", hash(tuple(sorted(tree.items()))))
    te = env.cache.get("treeenv")
    if te is None or te[0] != key:
        te = (key, TreeEnv(env, tree))
        env.cache.clear()
        env.cache["treeenv"] = te
    return te[1]


# ---------------------------------------------------------------------------------------------
# tree shrinking


def _base(type_string):
    return type_string.split(":")[0]


def closure(tree, class_names):
    """Names of all custom types reachable from the given top-level class names."""
    defs = {}
    for rel, text in tree.items():
        root = ET.fromstring(text)
        for el in root:
            if el.tag in ("enum", "struct"):
                defs[el.get("name")] = el
            elif el.tag == "packet":
                suffix = "ClientPacket" if "client" in rel else "ServerPacket"
                defs[el.get("family") + el.get("action") + suffix] = el
    seen = set()
    todo = [n.split(".")[0] for n in class_names]
    while todo:
        n = todo.pop()
        if n in seen or n not in defs:
            continue
        seen.add(n)
        for sub in defs[n].iter():
            t = sub.get("type")
            if t and _base(t) in defs:
                todo.append(_base(t))
    return seen


def prune_tree(tree, keep):
    """Drop every enum/struct/packet not in `keep` (PacketFamily/PacketAction always stay)."""
    keep = set(keep) | {"PacketFamily", "PacketAction"}
    out = {}
    for rel, text in tree.items():
        root = ET.fromstring(text)
        for el in list(root):
            if el.tag in ("enum", "struct"):
                if el.get("name") not in keep:
                    root.remove(el)
            elif el.tag == "packet":
                suffix = "ClientPacket" if "client" in rel else "ServerPacket"
                if el.get("family") + el.get("action") + suffix not in keep:
                    root.remove(el)
        ET.indent(root, "    ")
        out[rel] = '<?xml version="1.0" encoding="UTF-8"?>\n' + ET.tostring(root, encoding="unicode") + "\n"
    return out


def element_deletions(tree, class_name):
    """Candidate trees with one instruction / case / comment deleted from `class_name` or from any
    type it (transitively) refers to; the class itself first."""
    top = class_name.split(".")[0]
    names = [top] + sorted(closure(tree, [top]) - {top})

    def matches(el, rel, name):
        if el.tag in ("struct", "enum"):
            return el.get("name") == name
        if el.tag == "packet":
            suffix = "ClientPacket" if "client" in rel else "ServerPacket"
            return el.get("family") + el.get("action") + suffix == name
        return False

    for name in names:
        for rel in sorted(tree):
            root = ET.fromstring(tree[rel])
            target = next((el for el in root if matches(el, rel, name)), None)
            if target is None:
                continue
            n = sum(1 for _ in target.iter()) - 1
            for idx in range(n):
                root2 = ET.fromstring(tree[rel])
                el = next(e for e in root2 if matches(e, rel, name))
                parents = {c: p for p in el.iter() for c in p}
                victim = list(el.iter())[1:][idx]
                parents[victim].remove(victim)
                cand = dict(tree)
                cand[rel] = '<?xml version="1.0" encoding="UTF-8"?>\n' + ET.tostring(root2, encoding="unicode") + "\n"
                yield cand


def shape_features(spec):
    """Static features of a parsed spec tree (reach probes for the spec generator)."""
    feats = set()

    def walk(body, chunked, in_case, cd):
        seen_chunked_end = False
        for ins in body:
            if seen_chunked_end and ins.tag in ("field", "array", "length"):
                feats.add("instruction_after_chunked_section" + ("_in_case" if in_case else ""))
            if ins.tag == "chunked":
                feats.add("chunked_in_chunked" if chunked else "chunked")
                if in_case:
                    feats.add("chunked_in_case_in_chunked_context" if chunked else "chunked_in_case")
                walk(ins.body, True, in_case, cd)
                seen_chunked_end = True
            elif ins.tag == "switch":
                feats.add("switch_in_chunked" if chunked else "switch")
                if in_case:
                    feats.add("nested_switch")
                for c in ins.cases:
                    if c.default:
                        feats.add("default_case")
                    if c.body is None:
                        feats.add("empty_case")
                    else:
                        walk(c.body.body, chunked, True, c.body)
            elif ins.tag == "break":
                feats.add("break_in_case" if in_case else "break")
            elif ins.tag == "dummy":
                feats.add("dummy_first" if ins is body[0] and not chunked else "dummy_guarded")
            elif ins.tag == "array":
                kind = spec.resolve(ins.type)[0]
                feats.add(f"array_{'delimited' if ins.delimited else 'plain'}_{'len' if ins.length else 'nolen'}_{kind}")
                if ins.optional:
                    feats.add("optional_array")
                if ins.delimited and not ins.trailing:
                    feats.add("no_trailing_delimiter")
            elif ins.tag == "length":
                if ins.offset:
                    feats.add("length_offset")
                if ins.optional:
                    feats.add("optional_length")
            elif ins.tag == "field":
                kind = spec.resolve(ins.type)[0]
                if ins.value is not None:
                    feats.add(f"hardcoded_{'named' if ins.name else 'unnamed'}_{kind}")
                if kind == "struct":
                    sub = spec.structs[spec.resolve(ins.type)[1]]
                    if any(i.tag == "chunked" for i in sub.body):
                        feats.add("struct_with_chunked_in_chunked_parent" if chunked else "struct_with_chunked_in_plain_parent")
                    elif chunked:
                        feats.add("plain_struct_in_chunked_parent")
                if ins.optional:
                    feats.add(f"optional_{kind}")
                if ":" in ins.type:
                    feats.add("underlying_type_override")
                if kind in ("string",) and ins.length is None and ins is not body[-1]:
                    feats.add("unbounded_string_mid_body")

    for cd in spec.classes.values():
        if cd.kind != "case":
            walk(cd.body, False, False, cd)
    return feats
