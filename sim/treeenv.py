"""Shared harness for the checks that run on generated spec trees (C03, C14, C15, C19)."""

import importlib
import re
import xml.etree.ElementTree as ET

from .bridge import Bridge
from .models.spec_model import Spec
from .seams import make_faulty_reader, make_faulty_writer, HarnessError


class TreeRejected(Exception):
    """The real generator refused (or could not import) a tree the spec generator considers valid."""


class TreeEnv:
    def __init__(self, env, tree):
        self.spec = Spec(tree)
        try:
            env.load_tree(tree)
        except BaseException as e:  # generator or import failure
            raise TreeRejected(f"{type(e).__name__}: {e}") from e
        self.EoReader = importlib.import_module("eolib.data.eo_reader").EoReader
        self.EoWriter = importlib.import_module("eolib.data.eo_writer").EoWriter
        self.SerializationError = importlib.import_module("eolib.protocol.serialization_error").SerializationError
        self.FaultyReader = make_faulty_reader(self.EoReader)
        self.FaultyWriter = make_faulty_writer(self.EoWriter)
        self.bridge = Bridge(self.spec)

    def top_classes(self):
        return [cd for cd in self.spec.classes.values() if cd.kind != "case"]

    def all_classes(self):
        return list(self.spec.classes.values())


def get_tree_env(env, tree):
    """One generator run + import per distinct tree per process (cached on the Env)."""
    key = ("treeenv", hash(tuple(sorted(tree.items()))))
    te = env.cache.get("treeenv")
    if te is None or te[0] != key:
        te = (key, TreeEnv(env, tree))
        env.cache.clear()
        env.cache["treeenv"] = te
    return te[1]


# ---------------------------------------------------------------------------------------------
# tree shrinking


def _base(type_string):
    return type_string.split(":")[0]


def closure(tree, class_names):
    """Names of all custom types reachable from the given top-level class names."""
    defs = {}
    for rel, text in tree.items():
        root = ET.fromstring(text)
        for el in root:
            if el.tag in ("enum", "struct"):
                defs[el.get("name")] = el
            elif el.tag == "packet":
                suffix = "ClientPacket" if "client" in rel else "ServerPacket"
                defs[el.get("family") + el.get("action") + suffix] = el
    seen = set()
    todo = [n.split(".")[0] for n in class_names]
    while todo:
        n = todo.pop()
        if n in seen or n not in defs:
            continue
        seen.add(n)
        for sub in defs[n].iter():
            t = sub.get("type")
            if t and _base(t) in defs:
                todo.append(_base(t))
    return seen


def prune_tree(tree, keep):
    """Drop every enum/struct/packet not in `keep` (PacketFamily/PacketAction always stay)."""
    keep = set(keep) | {"PacketFamily", "PacketAction"}
    out = {}
    for rel, text in tree.items():
        root = ET.fromstring(text)
        for el in list(root):
            if el.tag in ("enum", "struct"):
                if el.get("name") not in keep:
                    root.remove(el)
            elif el.tag == "packet":
                suffix = "ClientPacket" if "client" in rel else "ServerPacket"
                if el.get("family") + el.get("action") + suffix not in keep:
                    root.remove(el)
        ET.indent(root, "    ")
        out[rel] = '<?xml version="1.0" encoding="UTF-8"?>\n' + ET.tostring(root, encoding="unicode") + "\n"
    return out


def element_deletions(tree, class_name):
    """Candidate trees with one instruction / case / comment of `class_name` deleted."""
    top = class_name.split(".")[0]
    for rel in sorted(tree):
        root = ET.fromstring(tree[rel])
        target = None
        for el in root:
            if el.tag == "struct" and el.get("name") == top:
                target = el
            elif el.tag == "packet":
                suffix = "ClientPacket" if "client" in rel else "ServerPacket"
                if el.get("family") + el.get("action") + suffix == top:
                    target = el
        if target is None:
            continue
        n = sum(1 for _ in target.iter()) - 1
        for idx in range(n):
            root2 = ET.fromstring(tree[rel])
            for el in root2:
                if (el.tag == target.tag and el.get("name") == target.get("name")
                        and el.get("family") == target.get("family") and el.get("action") == target.get("action")):
                    parents = {c: p for p in el.iter() for c in p}
                    victim = list(el.iter())[1:][idx]
                    parents[victim].remove(victim)
                    break
            cand = dict(tree)
            cand[rel] = '<?xml version="1.0" encoding="UTF-8"?>\n' + ET.tostring(root2, encoding="unicode") + "\n"
            yield cand
