"""Bridge between plain value / result trees and the real generated classes."""

import importlib

from .models.spec_model import Obj, EnumVal, snake_case


class Bridge:
    def __init__(self, spec):
        self.spec = spec
        self._classes = {}

    def module_name(self, path, type_name):
        pkg = "eolib.protocol._generated" + ("." + path.replace("/", ".") if path else "")
        return pkg + "." + snake_case(type_name)

    def cls(self, dotted):
        c = self._classes.get(dotted)
        if c is None:
            top, *rest = dotted.split(".")
            if top in self.spec.enums:
                path = self.spec.enums[top].path
            else:
                path = self.spec.classes[top].path
            mod = importlib.import_module(self.module_name(path, top))
            c = getattr(mod, top)
            for part in rest:
                c = getattr(c, part)
            self._classes[dotted] = c
        return c

    # value tree -> real object ------------------------------------------------------------
    def instantiate(self, value):
        if value is None or isinstance(value, (bool, int, str)):
            return value
        if isinstance(value, list):
            return [self.instantiate(v) for v in value]
        if "enum" in value:
            return self.cls(value["enum"])(value["v"])
        if "blob" in value:
            return bytes.fromhex(value["blob"])
        kwargs = {k: self.instantiate(v) for k, v in value["f"].items()}
        return self.cls(value["cls"])(**kwargs)

    # real object -> plain result tree -------------------------------------------------------
    def extract(self, obj, class_name, problems):
        """Plain tree of the object's public state; type irregularities are appended to `problems`."""
        cd = self.spec.classes[class_name]
        real_cls = self.cls(class_name)
        if type(obj) is not real_cls:
            problems.append(f"{class_name}: object is a {type(obj).__qualname__}")
            return None
        out = Obj(class_name)
        out.byte_size = obj.byte_size
        for attr, ins in self.spec.public_members(cd):
            try:
                v = getattr(obj, attr)
            except Exception as e:  # noqa
                problems.append(f"{class_name}.{attr}: getter raised {type(e).__name__}: {e}")
                continue
            if ins.tag == "switch":
                if v is None:
                    out.fields[attr] = None
                else:
                    qn = type(v).__qualname__
                    out.fields[attr] = self.extract(v, qn, problems) if qn in self.spec.classes else repr(v)
            elif ins.tag == "array":
                if v is None:
                    out.fields[attr] = None
                else:
                    if not isinstance(v, tuple):
                        problems.append(f"{class_name}.{attr}: array field is a {type(v).__name__}, not a tuple")
                    out.fields[attr] = tuple(self.plain(x, ins.type, problems, f"{class_name}.{attr}[]") for x in v)
            else:
                out.fields[attr] = self.plain(v, ins.type, problems, f"{class_name}.{attr}")
        return out

    def plain(self, v, type_string, problems, where):
        if v is None:
            return None
        kind, base, wire = self.spec.resolve(type_string)
        if kind == "int":
            if type(v) is not int:
                problems.append(f"{where}: expected int, got {type(v).__name__}")
            return v
        if kind == "bool":
            if type(v) is not bool:
                problems.append(f"{where}: expected bool, got {type(v).__name__}")
            return v
        if kind == "enum":
            ecls = self.cls(base)
            if not isinstance(v, ecls):
                problems.append(f"{where}: expected {base}, got {type(v).__name__}")
                return v
            iv = int(v)
            if iv in self.spec.enums[base].ordinals:
                if v is not ecls(iv) or not v.name or v.name.startswith("Unrecognized"):
                    problems.append(f"{where}: declared ordinal {iv} is not the declared member")
            elif v.name != f"Unrecognized({iv})":
                problems.append(f"{where}: unknown ordinal {iv} has name {v.name!r}")
            return EnumVal(base, iv)
        if kind == "string":
            if type(v) is not str:
                problems.append(f"{where}: expected str, got {type(v).__name__}")
            return v
        if kind == "blob":
            return bytes(v)
        return self.extract(v, base, problems)


def diff(a, b, path="result"):
    """First difference between two plain trees (None when equal). a = real, b = model."""
    if isinstance(a, Obj) or isinstance(b, Obj):
        if not (isinstance(a, Obj) and isinstance(b, Obj)):
            return f"{path}: {a!r} vs model {b!r}"
        if a.cls != b.cls:
            return f"{path}: class {a.cls} vs model {b.cls}"
        if a.byte_size != b.byte_size:
            return f"{path}.byte_size: {a.byte_size} vs model {b.byte_size}"
        for k in sorted(set(a.fields) | set(b.fields)):
            if k not in a.fields or k not in b.fields:
                return f"{path}.{k}: present only on one side"
            d = diff(a.fields[k], b.fields[k], f"{path}.{k}")
            if d:
                return d
        return None
    if isinstance(a, tuple) or isinstance(b, tuple):
        if not (isinstance(a, tuple) and isinstance(b, tuple)):
            return f"{path}: {a!r} vs model {b!r}"
        if len(a) != len(b):
            return f"{path}: {len(a)} elements vs model {len(b)}"
        for i, (x, y) in enumerate(zip(a, b)):
            d = diff(x, y, f"{path}[{i}]")
            if d:
                return d
        return None
    if type(a) is bool or type(b) is bool:
        if type(a) is not type(b) or a != b:
            return f"{path}: {a!r} vs model {b!r}"
        return None
    if a != b:
        return f"{path}: {a!r} vs model {b!r}"
    return None
