"""Child-interpreter side of the C18 / C20 simulations.

Reads one JSON job from stdin, executes its steps in this (fresh) interpreter with the seams
the job asks for, prints one JSON document with a result per step.  The parent chooses
PYTHONHASHSEED, the directory-walk permutation, the fault to inject into open()/makedirs()
and the import order; this file makes no random choice of its own.
"""

import builtins
import contextlib
import errno
import hashlib
import importlib
import io
import json
import os
import random
import shutil
import types as _types
import importlib.util as _importlib_util
import sys

sys.dont_write_bytecode = True

_real_open = builtins.open
_real_walk = os.walk
_real_makedirs = os.makedirs
_real_scandir = os.scandir
_real_listdir = os.listdir
_real_mkdir = os.mkdir


class Seams:
    def __init__(self):
        self.walk_seed = None
        self.fault = None           # {"kind", "at"}
        self.n_write = 0
        self.n_read = 0
        self.n_mkdir = 0
        self.written = []
        self.fired = None

    def reset_counters(self):
        self.n_write = self.n_read = self.n_mkdir = 0
        self.written = []
        self.fired = None


S = Seams()


def sim_walk(top, *args, **kwargs):
    for root, dirs, files in _real_walk(top, *args, **kwargs):
        if S.walk_seed is not None:
            rng = random.Random(f"{S.walk_seed}|{os.path.basename(root)}|{len(dirs)}|{len(files)}")
            dirs.sort()
            files.sort()
            rng.shuffle(dirs)       # in place: steers the top-down traversal
            rng.shuffle(files)
        yield root, dirs, files


def _order_rng(path, n):
    try:
        base = os.path.basename(os.fspath(path).rstrip("/" if isinstance(os.fspath(path), str) else b"/"))
    except TypeError:
        base = "?"
    return random.Random(f"{S.walk_seed}|scan|{base}|{n}")


class PermutedScandir:
    """os.scandir in an order chosen by the simulator (whatever enumerates directories - os.walk, glob,
    pathlib - sees the permuted order).  Entries are real DirEntry objects."""

    def __init__(self, path):
        with _real_scandir(path) as it:
            entries = list(it)
        entries.sort(key=lambda e: e.name if isinstance(e.name, str) else e.name.decode("utf-8", "replace"))
        _order_rng(path, len(entries)).shuffle(entries)
        self._it = iter(entries)

    def __iter__(self):
        return self

    def __next__(self):
        return next(self._it)

    def close(self):
        self._it = iter(())

    def __enter__(self):
        return self

    def __exit__(self, *exc):
        self.close()
        return False


def sim_scandir(path="."):
    if S.walk_seed is None or isinstance(path, int):
        return _real_scandir(path)
    return PermutedScandir(path)


def sim_listdir(path="."):
    names = _real_listdir(path)
    if S.walk_seed is None or isinstance(path, int):
        return names
    names.sort()
    _order_rng(path, len(names)).shuffle(names)
    return names


class TornFile:
    """A text file whose first write() stores only part of the data and then fails or crashes."""

    def __init__(self, f, crash):
        self._f, self._crash = f, crash

    def write(self, data):
        self._f.write(data[: len(data) // 2])
        self._f.flush()
        if self._crash:
            os._exit(137)           # a crash: no finally clause, no atexit, nothing flushed further
        raise OSError(errno.EIO, "simulated I/O error after a partial write")

    def __enter__(self):
        return self

    def __exit__(self, *exc):
        self._f.close()
        return False

    def __getattr__(self, name):
        return getattr(self._f, name)


def sim_open(file, mode="r", *args, **kwargs):
    f = S.fault
    if isinstance(file, (str, bytes, os.PathLike)) and any(c in mode for c in "wax+"):
        idx = S.n_write
        S.n_write += 1
        if f and f["kind"] in ("oserror_open", "torn", "crash", "crash_before") and f["at"] == idx:
            S.fired = f["kind"]
            if f["kind"] == "oserror_open":
                raise OSError(f.get("errno", errno.ENOSPC), os.strerror(f.get("errno", errno.ENOSPC)), str(file))
            if f["kind"] == "crash_before":
                os._exit(137)
            S.written.append(str(file))
            return TornFile(_real_open(file, mode, *args, **kwargs), crash=f["kind"] == "crash")
        S.written.append(str(file))
    elif isinstance(file, (str, bytes, os.PathLike)):
        idx = S.n_read
        S.n_read += 1
        if f and f["kind"] == "oserror_read" and f["at"] == idx:
            S.fired = f["kind"]
            raise OSError(errno.EIO, "simulated read error", str(file))
    return _real_open(file, mode, *args, **kwargs)


_in_makedirs = [0]


def sim_makedirs(name, *args, **kwargs):
    idx = S.n_mkdir
    S.n_mkdir += 1
    f = S.fault
    if f and f["kind"] == "oserror_mkdir" and f["at"] == idx:
        S.fired = f["kind"]
        raise OSError(errno.EACCES, "simulated permission error", str(name))
    _in_makedirs[0] += 1
    try:
        return _real_makedirs(name, *args, **kwargs)
    finally:
        _in_makedirs[0] -= 1


def sim_mkdir(path, *args, **kwargs):
    """Directory creation that does not go through os.makedirs (pathlib's Path.mkdir) meets the same fault."""
    if not _in_makedirs[0]:
        idx = S.n_mkdir
        S.n_mkdir += 1
        f = S.fault
        if f and f["kind"] == "oserror_mkdir" and f["at"] == idx:
            S.fired = f["kind"]
            raise OSError(errno.EACCES, "simulated permission error", str(path))
    return _real_mkdir(path, *args, **kwargs)


def install():
    builtins.open = sim_open
    io.open = sim_open
    os.walk = sim_walk
    os.makedirs = sim_makedirs
    os.scandir = sim_scandir
    os.listdir = sim_listdir
    os.mkdir = sim_mkdir


def digest_dir(d):
    out = {}
    for root, dirs, files in _real_walk(d):
        dirs.sort()
        for fn in sorted(files):
            if fn.endswith(".pyc"):
                continue
            p = os.path.join(root, fn)
            with _real_open(p, "rb") as f:
                out[os.path.relpath(p, d).replace(os.sep, "/")] = hashlib.sha256(f.read()).hexdigest()
    return out


def main():
    job = json.load(sys.stdin)
    for p in reversed(job.get("sys_path", [])):
        sys.path.insert(0, p)
    install()
    results = []
    gen = None
    slots = {}
    real_stdout = sys.stdout
    for step in job["steps"]:
        op = step["op"]
        r = {"op": op}
        try:
            if op == "seams":
                S.walk_seed = step.get("walk_seed")
            elif op == "new":
                from pathlib import Path
                mod = importlib.import_module("protocol_code_generator.generate.code_generator")
                gen = (mod.ProtocolCodeGenerator(input_root=Path(step["xml"])) if step.get("keyword")
                       else mod.ProtocolCodeGenerator(Path(step["xml"])))
                if step.get("slot"):
                    slots[step["slot"]] = gen
                r["generator_file"] = mod.__file__
            elif op == "generate":
                from pathlib import Path
                S.reset_counters()
                S.fault = step.get("fault")
                buf = io.StringIO()
                if step.get("slot"):
                    gen = slots[step["slot"]]
                try:
                    with contextlib.redirect_stdout(buf):
                        if step.get("keyword"):
                            gen.generate(output_root=Path(step["out"]))
                        else:
                            gen.generate(Path(step["out"]))
                    r["status"] = "ok"
                except Exception as e:  # noqa
                    r["status"] = type(e).__name__
                    r["error"] = str(e)[:300]
                finally:
                    S.fault = None
                r.update(writes=S.n_write, reads=S.n_read, mkdirs=S.n_mkdir, fired=S.fired,
                         written=[os.path.relpath(p, step["out"]).replace(os.sep, "/") for p in S.written])
                r["state_after"] = {
                    "protocol_files": len(gen._protocol_files), "exports": len(gen._exports),
                    "packet_paths": len(gen._packet_paths),
                    "types": len(gen._type_factory.types) + len(gen._type_factory.unresolved_types),
                } if all(hasattr(gen, a) for a in ("_protocol_files", "_exports", "_packet_paths", "_type_factory")) else None
            elif op == "protocol_py":
                import runpy
                S.reset_counters()
                S.fault = step.get("fault")
                argv = sys.argv
                buf = io.StringIO()
                try:
                    sys.argv = [step["script"]] + step["args"]
                    with contextlib.redirect_stdout(buf):
                        runpy.run_path(step["script"], run_name="__main__")
                    r["status"] = "ok"
                except SystemExit as e:
                    r["status"] = "ok" if not e.code else f"exit {e.code}"
                except Exception as e:  # noqa
                    r["status"] = type(e).__name__
                    r["error"] = str(e)[:300]
                finally:
                    sys.argv = argv
                    S.fault = None
                r.update(writes=S.n_write, fired=S.fired)
            elif op == "build_hook":
                # the packaging entry point (protocol_build_hook.py) with the packaging library stubbed: the hook
                # runs "python ./protocol.py <verb>" from the project root, so `python` is put on PATH for it
                root = step["root"]
                for name in ("hatchling", "hatchling.builders", "hatchling.builders.hooks", "hatchling.builders.hooks.plugin",
                             "hatchling.builders.hooks.plugin.interface"):
                    sys.modules.setdefault(name, _types.ModuleType(name))

                class BuildHookInterface:        # the few attributes a hook may use
                    PLUGIN_NAME = "custom"

                    def __init__(self, root):
                        self.root = root
                        self.directory = os.path.join(root, "dist")
                        self.target_name = "wheel"
                        self.config = {}
                        self.build_config = None
                        self.metadata = None

                sys.modules["hatchling.builders.hooks.plugin.interface"].BuildHookInterface = BuildHookInterface
                shim = os.path.join(root, ".shim")
                _real_makedirs(shim, exist_ok=True)
                link = os.path.join(shim, "python")
                if not os.path.lexists(link):
                    os.symlink(sys.executable, link)
                old_cwd, old_path = os.getcwd(), os.environ.get("PATH", "")
                sys.stdout.flush()
                saved_out = os.dup(1)           # the hook's subprocess writes to fd 1, which carries this child's answers
                sink = os.open(os.devnull, os.O_WRONLY)
                os.dup2(sink, 1)
                try:
                    os.chdir(root)
                    os.environ["PATH"] = shim + os.pathsep + old_path
                    spec_ = _importlib_util.spec_from_file_location("protocol_build_hook_under_test", os.path.join(root, "protocol_build_hook.py"))
                    mod = _importlib_util.module_from_spec(spec_)
                    spec_.loader.exec_module(mod)
                    hook = mod.ProtocolBuildHook(root)
                    for call in step["calls"]:
                        if call == "clean":
                            hook.clean(["standard"])
                        else:
                            hook.initialize("standard", {})
                    r["status"] = "ok"
                except Exception as e:  # noqa
                    r["status"] = type(e).__name__
                    r["error"] = str(e)[:300]
                finally:
                    os.dup2(saved_out, 1)
                    os.close(saved_out)
                    os.close(sink)
                    os.chdir(old_cwd)
                    os.environ["PATH"] = old_path
            elif op == "lose":
                rng = random.Random(step["seed"])
                files = sorted(digest_dir(step["dir"])) if os.path.isdir(step["dir"]) else []
                lost = []
                for rel in files:
                    x = rng.random()
                    if x < step.get("p", 0.3):
                        p = os.path.join(step["dir"], rel)
                        if rng.random() < 0.5:
                            os.remove(p)
                            lost.append(["deleted", rel])
                        else:
                            with _real_open(p, "rb") as f:
                                data = f.read()
                            with _real_open(p, "wb") as f:
                                f.write(data[: rng.randrange(0, len(data) + 1)])
                            lost.append(["truncated", rel])
                r["lost"] = lost
            elif op == "rewrite_xml":
                for rel in sorted(step["tree"]):
                    pth = os.path.join(step["dir"], rel)
                    with _real_open(pth, "w", encoding="utf-8") as f:
                        f.write(step["tree"][rel])
            elif op == "chdir":
                os.chdir(step["dir"])
            elif op == "rmtree":
                shutil.rmtree(step["dir"], ignore_errors=True)
            elif op == "copytree":
                shutil.rmtree(step["dst"], ignore_errors=True)
                shutil.copytree(step["src"], step["dst"])
            elif op == "digest":
                r["files"] = digest_dir(step["dir"]) if os.path.isdir(step["dir"]) else {}
            elif op == "import_check":
                r["problems"] = import_check(step["types"])
            elif op == "namespace":
                r.update(namespace_check(step))
        except BaseException as e:  # noqa
            r["status"] = "child-error"
            r["error"] = f"{type(e).__name__}: {e}"
        results.append(r)
    sys.stdout = real_stdout
    json.dump(results, sys.stdout)
    sys.stdout.flush()


# ---------------------------------------------------------------------------------------------
# C18: importability of the generated package


def import_check(types):
    """types: [[name, dir path ('' for root), kind, module name], ...]"""
    problems = []
    buf = io.StringIO()
    try:
        with contextlib.redirect_stdout(buf):
            eolib = importlib.import_module("eolib")
    except BaseException as e:  # noqa
        return [f"import eolib failed: {type(e).__name__}: {e}"]
    import inspect
    for name, path, kind, module in types:
        dotted = ("." + path.replace("/", ".")) if path else ""
        try:
            home = importlib.import_module(module)
            cls = getattr(home, name)
        except BaseException as e:  # noqa
            problems.append(f"{name}: defining module {module} not importable or class missing: {type(e).__name__}: {e}")
            continue
        if not inspect.isclass(cls):
            problems.append(f"{name}: {module}.{name} is not a class")
            continue
        for pkg in ("eolib.protocol._generated" + dotted, "eolib.protocol" + dotted, "eolib"):
            try:
                mod = importlib.import_module(pkg)
                got = getattr(mod, name)
            except BaseException as e:  # noqa
                problems.append(f"{name}: not importable from {pkg}: {type(e).__name__}: {e}")
                continue
            if got is not cls:
                problems.append(f"{name}: {pkg}.{name} is not the class defined in {module}")
    return problems


# ---------------------------------------------------------------------------------------------
# C20: namespace resolution after a seeded import sequence


def namespace_check(step):
    """Execute the import statements of step['imports'], then check every documented module/name."""
    import ast
    import types as _types
    out = {"import_errors": [], "problems": []}
    buf = io.StringIO()
    ns = {}
    with contextlib.redirect_stdout(buf):
        for stmt in step["imports"]:
            try:
                exec(stmt, ns)
            except BaseException as e:  # noqa
                out["import_errors"].append([stmt, f"{type(e).__name__}: {e}"])
        try:
            eolib = importlib.import_module("eolib")
        except BaseException as e:  # noqa
            out["problems"].append(["import-eolib", "eolib", f"{type(e).__name__}: {e}"])
            return out
    problems = out["problems"]
    if step.get("exercise"):
        # the program has been running for a while: numbers and strings coded both ways, a writer and a reader used,
        # the helpers of eolib.encrypt and eolib.packet called (a name that rebinds itself on first use shows now)
        try:
            with contextlib.redirect_stdout(buf):
                w = eolib.EoWriter()
                w.add_char(7); w.add_short(300); w.add_three(70000); w.add_int(20000000)
                w.add_string("abc"); w.add_byte(0xFF); w.add_encoded_string("xyz")
                w.string_sanitization_mode = True
                w.add_fixed_string("a\u00ffb", 5, True)
                r = eolib.EoReader(w.to_bytearray())
                r.get_char(); r.get_short(); r.get_three(); r.get_int()
                r.chunked_reading_mode = True
                r.get_string(); r.next_chunk(); r.get_encoded_string(); r.slice().get_fixed_string(5, True)
                eolib.decode_number(eolib.encode_number(12345))
                text = bytearray(b"hello")
                eolib.encode_string(text); eolib.decode_string(text)
                data = bytearray(range(1, 40))
                eolib.interleave(data); eolib.deinterleave(data); eolib.flip_msb(data); eolib.swap_multiples(data, 3)
                eolib.server_verification_hash(12345)
                seq = eolib.PacketSequencer(eolib.SequenceStart.zero())
                seq.next_sequence(); seq.set_sequence_start(eolib.InitSequenceStart.generate()); seq.next_sequence()
                eolib.PingSequenceStart.generate(); eolib.AccountReplySequenceStart.generate()
        except BaseException as e:  # noqa
            problems.append(["exercise", "eolib", f"ordinary use of the top-level names raised {type(e).__name__}: {e}"])
    # (i) documented modules reachable by attribute access and identical to what the import system resolves.
    # The attribute walks are all done first: importing a module explicitly would bind it on its parent
    # and hide a path that `import eolib` alone had left unbound.
    walked = {}
    for modname in step["modules"]:
        obj = eolib
        for part in modname.split(".")[1:]:
            try:
                obj = getattr(obj, part)
            except AttributeError:
                problems.append(["module-path-missing", modname, f"attribute walk stops at {part!r}"])
                obj = None
                break
        walked[modname] = obj
    for modname in step["modules"]:
        try:
            real = importlib.import_module(modname)
        except BaseException as e:  # noqa
            problems.append(["module-import", modname, f"{type(e).__name__}: {e}"])
            continue
        obj = walked[modname]
        if obj is not None and obj is not real:
            where = getattr(obj, "__name__", repr(obj)[:60])
            problems.append(["module-path", modname, f"attribute walk yields {where}"])
        # (ii) statement forms
        for form in (f"import {modname}", f"import {modname} as _m",
                     f"from {modname.rpartition('.')[0]} import {modname.rpartition('.')[2]} as _m" if "." in modname else None):
            if form is None:
                continue
            loc = {}
            try:
                exec(form, loc)
            except BaseException as e:  # noqa
                problems.append(["import-form", modname, f"{form!r} raised {type(e).__name__}: {e}"])
                continue
            if "_m" in loc and loc["_m"] is not real:
                problems.append(["import-form-identity", modname, f"{form!r} bound {getattr(loc['_m'], '__name__', '?')}"])
    # (iii) public names: same object via eolib, home subpackage, defining module
    for defining, home, name in step["names"]:
        try:
            dm = importlib.import_module(defining)
            obj = getattr(dm, name)
        except BaseException as e:  # noqa
            problems.append(["name-missing-in-defining-module", f"{defining}.{name}", f"{type(e).__name__}: {e}"])
            continue
        for pkg in (home, "eolib"):
            try:
                pm = importlib.import_module(pkg)
                got = getattr(pm, name)
            except BaseException as e:  # noqa
                problems.append(["name-not-exported", f"{pkg}.{name}", f"{type(e).__name__}"])
                continue
            if got is not obj:
                problems.append(["name-identity", f"{pkg}.{name}", f"is not {defining}.{name}"])
    # (iv) whatever else a generated package declares public (its __all__): the same object in its home subpackage
    # and in the top-level package
    for gp in step.get("gen_packages", []):
        try:
            gm = importlib.import_module(gp)
        except BaseException:  # noqa  (reported above where it matters)
            continue
        home = gp.replace("eolib.protocol._generated", "eolib.protocol")
        for name in list(getattr(gm, "__all__", []) or []):
            try:
                obj = getattr(gm, name)
            except AttributeError:
                problems.append(["name-missing-in-defining-module", f"{gp}.{name}", "listed in __all__ but not defined"])
                continue
            for pkg in (home, "eolib"):
                try:
                    got = getattr(importlib.import_module(pkg), name)
                except BaseException as e:  # noqa
                    problems.append(["name-not-exported", f"{pkg}.{name}", f"{type(e).__name__}"])
                    continue
                if got is not obj:
                    problems.append(["name-identity", f"{pkg}.{name}", f"is not {gp}.{name}"])
    # (v) a tool walks the package tree and imports every module it is told about (documentation builders, freezers,
    # test collectors do): afterwards no source file has been executed as two different modules - a class defined in
    # a file that was loaded twice is no longer one object everywhere
    if step.get("walk") and not problems:
        import pkgutil
        with contextlib.redirect_stdout(buf):
            try:
                listed = [m.name for m in pkgutil.walk_packages(eolib.__path__, "eolib.", onerror=lambda name: None)]
            except BaseException as e:  # noqa
                listed = []
                problems.append(["package-walk", "eolib", f"pkgutil.walk_packages raised {type(e).__name__}: {e}"])
            for name in listed:
                try:
                    importlib.import_module(name)
                except BaseException:  # noqa  (a listed module that cannot be imported is reported by (i)-(iv) where it matters)
                    pass
        by_file = {}
        for name, mod in sorted(sys.modules.items()):
            f = getattr(mod, "__file__", None)
            if name.startswith("eolib") and f and getattr(mod, "__name__", None) == name:
                by_file.setdefault(os.path.realpath(f), []).append(name)
        for f, names in sorted(by_file.items()):
            if len(names) > 1:
                problems.append(["module-loaded-twice", names[0], f"{os.path.basename(f)} was executed as {names}"])
    return out


if __name__ == "__main__":
    main()
