"""Deterministic interleaving of two caller threads (baton passing).

Two real threads run, but only one at a time: every `line` event of the interpreter inside the files of the
code under test is a pre-emption point, and a schedule (a list of "run this many lines, then switch") decides at
which of them the baton passes to the other thread.  Which thread runs is therefore never decided by the operating
system; the same schedule gives the same interleaving.  A thread that finishes hands the baton over for good.
"""

import sys
import threading


class InterleaveStall(BaseException):
    """The thread holding the baton did not give it back (blocked on something the other thread holds)."""


class Interleaver:
    def __init__(self, schedule, in_scope, stall_s=20.0, max_switches=600):
        self.max_switches = max_switches    # the schedule is applied cyclically, up to this many switches
        self.schedule = list(schedule)
        self.in_scope = in_scope            # filename -> bool
        self.cond = threading.Condition()
        self.turn = 0
        self.alive = [True, True]
        self.si = 0
        self.budget = self.schedule[0] if self.schedule else 1 << 60
        self.switches = 0
        self.lines = [0, 0]
        self.stall_s = stall_s
        self.errors = [None, None]
        self.results = [None, None]

    # called with the baton held -------------------------------------------------------------------
    def _step(self, idx):
        self.lines[idx] += 1
        self.budget -= 1
        if self.budget > 0 or not self.alive[1 - idx]:
            return
        with self.cond:
            self.si += 1
            self.budget = self.schedule[self.si % len(self.schedule)] if self.si < self.max_switches else 1 << 60
            self.turn = 1 - idx
            self.switches += 1
            self.cond.notify_all()
            while self.turn != idx:
                if not self.cond.wait(self.stall_s):
                    raise InterleaveStall(f"thread {idx} waited {self.stall_s}s for the baton")

    def _tracer(self, idx):
        def local(frame, event, arg):
            if event == "line":
                self._step(idx)
            return local

        def glob(frame, event, arg):
            if event == "call" and self.in_scope(frame.f_code.co_filename):
                return local
            return None

        return glob

    def _body(self, idx, fn):
        with self.cond:
            while self.turn != idx:
                if not self.cond.wait(self.stall_s):
                    self.errors[idx] = InterleaveStall(f"thread {idx} never got the baton")
                    return
        sys.settrace(self._tracer(idx))
        try:
            self.results[idx] = fn()
        except BaseException as e:  # noqa
            self.errors[idx] = e
        finally:
            sys.settrace(None)
            with self.cond:
                self.alive[idx] = False
                self.turn = 1 - idx
                self.cond.notify_all()

    def run(self, fn_a, fn_b):
        threads = [threading.Thread(target=self._body, args=(0, fn_a), name="sim-caller-0"),
                   threading.Thread(target=self._body, args=(1, fn_b), name="sim-caller-1")]
        for t in threads:
            t.daemon = True
            t.start()
        for t in threads:
            t.join(self.stall_s * 3)
        if any(t.is_alive() for t in threads):
            raise InterleaveStall("callers did not finish")
        return self.results, self.errors
