"""An interpreter of eo-protocol XML, written from the format rules (shares no code with the
generator).  It provides

* parsing of a spec tree into plain records, with type sizes / boundedness re-derived from
  the XML independently of the generator's TypeFactory;
* the READ WALK: bytes -> plain result tree + the list of primitive reader operations with the
  chunked mode in force at each (oracle of C03, C15, C19);
* the WRITE WALK: value tree -> list of primitive writer operations with the sanitisation
  mode expected at each (oracle of C15).
"""

import os
import xml.etree.ElementTree as ET

from .codec_model import SIZES
from .reader_model import ReaderModel, ModelValueError

INT_TYPES = ("byte", "char", "short", "three", "int")
INSTR_TAGS = ("field", "array", "length", "dummy", "switch", "chunked", "break")


class ModelStepLimit(Exception):
    pass


# ---------------------------------------------------------------------------------------------
# parsed records


class Instr:
    __slots__ = ("tag", "name", "type", "length", "padded", "optional", "value", "offset", "delimited",
                 "trailing", "field", "cases", "body", "cls")

    def __init__(self, tag):
        self.tag = tag
        self.name = self.type = self.length = self.value = self.field = None
        self.padded = self.optional = self.delimited = False
        self.trailing = True
        self.offset = 0
        self.cases = []
        self.body = []
        self.cls = None  # for switch cases: owning class def


class Case:
    __slots__ = ("value", "default", "body", "cls_name")

    def __init__(self):
        self.value = None
        self.default = False
        self.body = []
        self.cls_name = None


class ClassDef:
    """A struct, a packet or a switch-case data class."""

    def __init__(self, name, kind, path, body, static_chunked=False):
        self.name = name            # dotted for case classes: Outer.FooDataBar
        self.kind = kind            # struct | packet | case
        self.path = path            # directory of the defining file ('' for the root)
        self.body = body
        self.static_chunked = static_chunked   # statically inside <chunked> when the body starts
        self.family = self.action = None


class EnumDef:
    def __init__(self, name, path, underlying, values):
        self.name, self.path, self.underlying, self.values = name, path, underlying, values
        self.by_name = {n: o for n, o in values}
        self.ordinals = {o for _, o in values}

    @staticmethod
    def python_name(n):
        return "None_" if n == "None" else n


def _text(el):
    t = (el.text or "").strip()
    for child in el:
        tail = (child.tail or "").strip()
        if tail and not t:
            t = tail
    return t or None


def _is_true(v):
    return v is not None and v.lower() == "true"


def snake_case(name):
    """PascalCase -> snake_case as the documented module naming rule has it: a new word starts at an
    upper-case letter that is followed by a lower-case letter or preceded by a lower-case one."""
    out = []
    for i, c in enumerate(name):
        if i > 0 and c.isupper():
            nxt_not_upper = i + 1 < len(name) and not name[i + 1].isupper()
            if nxt_not_upper or name[i - 1].islower():
                out.append("_")
        out.append(c.lower())
    return "".join(out)


def pascal_from_snake(name):
    return "".join(p[:1].upper() + p[1:].lower() for p in name.split("_"))


class Spec:
    def __init__(self, tree):
        """tree: {relative path of protocol.xml: xml text}"""
        self.enums = {}
        self.structs = {}
        self.packets = []
        self.classes = {}       # every ClassDef by dotted name (incl. case classes)
        self.files = {}
        for rel in sorted(tree):
            root = ET.fromstring(tree[rel])
            path = os.path.dirname(rel).replace(os.sep, "/")
            if path == ".":
                path = ""
            self.files[rel] = path
            for el in root.findall("enum"):
                values = [(v.get("name"), int(_text(v))) for v in el.findall("value")]
                self.enums[el.get("name")] = EnumDef(el.get("name"), path, el.get("type"), values)
            for el in root.findall("struct"):
                self.structs[el.get("name")] = (el, path)
            for el in root.findall("packet"):
                self.packets.append((el, path))
        structs = self.structs
        self.structs = {}
        for name, (el, path) in structs.items():
            cd = ClassDef(name, "struct", path, [])
            self.structs[name] = cd
            self.classes[name] = cd
        for name, (el, path) in structs.items():
            self.structs[name].body = self._parse_body(el, self.structs[name], False)
        packets = self.packets
        self.packets = []
        for el, path in packets:
            suffix = {"net/client": "ClientPacket", "net/server": "ServerPacket"}[path]
            name = el.get("family") + el.get("action") + suffix
            cd = ClassDef(name, "packet", path, [])
            cd.family, cd.action = el.get("family"), el.get("action")
            self.classes[name] = cd
            cd.body = self._parse_body(el, cd, False)
            self.packets.append(cd)
        self._fixed_cache = {}
        self._bounded_cache = {}

    # -- parsing ---------------------------------------------------------------------------
    def _parse_body(self, el, owner, static_chunked):
        out = []
        for child in el:
            if child.tag not in INSTR_TAGS:
                continue
            ins = Instr(child.tag)
            if child.tag in ("field", "array", "length", "dummy"):
                ins.name = child.get("name")
                ins.type = child.get("type")
                ins.length = child.get("length")
                ins.padded = _is_true(child.get("padded"))
                ins.optional = bool(child.get("optional"))      # any non-empty spelling counts
                ins.delimited = bool(child.get("delimited"))
                tr = child.get("trailing-delimiter")
                ins.trailing = True if tr is None else _is_true(tr)
                ins.offset = int(child.get("offset") or 0)
                if child.tag in ("field", "dummy"):
                    ins.value = _text(child)
            elif child.tag == "switch":
                ins.field = child.get("field")
                iface = pascal_from_snake(ins.field) + "Data"
                for c in child.findall("case"):
                    case = Case()
                    case.default = _is_true(c.get("default"))
                    case.value = c.get("value")
                    case.cls_name = owner.name + "." + iface + ("Default" if case.default else case.value)
                    has_body = any(x.tag in INSTR_TAGS for x in c)
                    if has_body:
                        cd = ClassDef(case.cls_name, "case", owner.path, [], static_chunked)
                        self.classes[case.cls_name] = cd
                        cd.body = self._parse_body(c, cd, static_chunked)
                        case.body = cd
                    else:
                        case.body = None
                    ins.cases.append(case)
            elif child.tag == "chunked":
                ins.body = self._parse_body(child, owner, True)
            out.append(ins)
        return out

    # -- types -----------------------------------------------------------------------------
    def resolve(self, type_string):
        """-> (kind, base name, wire int type or None)"""
        base, _, override = type_string.partition(":")
        if base in INT_TYPES:
            return ("int", base, base)
        if base == "bool":
            return ("bool", base, override or "char")
        if base in ("string", "encoded_string"):
            return ("string", base, None)
        if base == "blob":
            return ("blob", base, None)
        if base in self.enums:
            return ("enum", base, override or self.enums[base].underlying)
        if base in self.structs:
            return ("struct", base, None)
        raise KeyError(type_string)

    def type_fixed_size(self, type_string, length=None):
        kind, base, wire = self.resolve(type_string)
        if kind in ("int", "bool", "enum"):
            return SIZES[wire]
        if kind == "string":
            return int(length) if length is not None and length.isdigit() else None
        if kind == "blob":
            return None
        return self.struct_fixed_size(base)

    def type_bounded(self, type_string, length=None):
        kind, base, wire = self.resolve(type_string)
        if kind in ("int", "bool", "enum"):
            return True
        if kind == "string":
            return length is not None
        if kind == "blob":
            return False
        return self.struct_bounded(base)

    def _flatten(self, body, out):
        for ins in body:
            out.append(ins)
            if ins.tag == "chunked":
                self._flatten(ins.body, out)
            elif ins.tag == "switch":
                for c in ins.cases:
                    if c.body is not None:
                        self._flatten(c.body.body, out)
        return out

    def struct_fixed_size(self, name):
        """Size in bytes when every serialization of the struct has the same size, else None."""
        if name in self._fixed_cache:
            return self._fixed_cache[name]
        self._fixed_cache[name] = None  # cycles cannot be fixed-size
        total = 0
        for ins in self._flatten(self.structs[name].body, []):
            if ins.tag in ("chunked", "switch"):
                total = None
            elif ins.tag == "field":
                size = self.type_fixed_size(ins.type, ins.length)
                total = None if (size is None or ins.optional) else total + size
            elif ins.tag == "array":
                n = int(ins.length) if ins.length is not None and ins.length.lstrip("-").isdigit() else None
                size = self.type_fixed_size(ins.type)
                if n is None or size is None or ins.optional or ins.delimited:
                    total = None
                else:
                    total += n * size
            elif ins.tag == "dummy":
                size = self.type_fixed_size(ins.type)
                total = None if size is None else total + size
            if total is None:
                break
        self._fixed_cache[name] = total
        return total

    def struct_bounded(self, name):
        """True when a reader can tell where the struct ends without consuming the rest of the chunk."""
        if name in self._bounded_cache:
            return self._bounded_cache[name]
        self._bounded_cache[name] = True
        result = True
        for ins in self._flatten(self.structs[name].body, []):
            if not result:
                result = ins.tag == "break"
                continue
            if ins.tag == "field":
                result = self.type_bounded(ins.type, ins.length)
            elif ins.tag == "array":
                result = self.type_bounded(ins.type) and ins.length is not None
            elif ins.tag == "dummy":
                result = self.type_bounded(ins.type)
        self._bounded_cache[name] = result
        return result

    # -- public surface of a class (what C03/C19 compare) --------------------------------------
    def public_members(self, cd):
        """[(attribute name, instr)] for every named, non-length field/array and every switch."""
        out = []

        def walk(body):
            for ins in body:
                if ins.tag in ("field", "array") and ins.name is not None:
                    out.append((ins.name, ins))
                elif ins.tag == "switch":
                    out.append((ins.field + "_data", ins))
                elif ins.tag == "chunked":
                    walk(ins.body)

        walk(cd.body)
        return out


# ---------------------------------------------------------------------------------------------
# result records of the read walk


class Obj:
    __slots__ = ("cls", "fields", "byte_size")

    def __init__(self, cls):
        self.cls = cls
        self.fields = {}
        self.byte_size = 0

    def __repr__(self):
        return f"{self.cls}({self.fields}, byte_size={self.byte_size})"


class EnumVal:
    __slots__ = ("enum", "value")

    def __init__(self, enum, value):
        self.enum, self.value = enum, value

    def __repr__(self):
        return f"{self.enum}({self.value})"

    def __eq__(self, other):
        return isinstance(other, EnumVal) and (self.enum, self.value) == (other.enum, other.value)


# ---------------------------------------------------------------------------------------------
# READ WALK


class ReadWalk:
    def __init__(self, spec, data, chunked=False, step_limit=2_000_000):
        self.spec = spec
        self.r = ReaderModel(data)
        self.r.chunked = chunked
        self.ops = []            # (op kind, chunked mode in force)
        self.frames = []         # (class name, entry mode, exit mode)
        self.limit = step_limit
        self.probes = set()

    def op(self, kind):
        self.ops.append((kind, self.r.chunked))
        if len(self.ops) > self.limit:
            raise ModelStepLimit()

    # primitive reads ------------------------------------------------------------------------
    def read_int(self, wire):
        self.op("get_" + wire)
        return self.r.get_byte() if wire == "byte" else self.r.get_number(SIZES[wire])

    def read_string(self, base, length, padded):
        enc = base == "encoded_string"
        if length is None:
            self.op("get_encoded_string" if enc else "get_string")
            return self.r.get_encoded_string() if enc else self.r.get_string()
        self.op("get_fixed_encoded_string" if enc else "get_fixed_string")
        if length < 0:
            self.probes.add("negative_fixed_string_length")
        return (self.r.get_fixed_encoded_string if enc else self.r.get_fixed_string)(length, padded)

    def read_value(self, type_string, length=None, padded=False, offset=0):
        kind, base, wire = self.spec.resolve(type_string)
        if kind == "int":
            return self.read_int(wire) + offset
        if kind == "bool":
            return self.read_int(wire) != 0
        if kind == "enum":
            v = self.read_int(wire)
            if v not in self.spec.enums[base].ordinals:
                self.probes.add("unknown_enum_ordinal")
            return EnumVal(base, v)
        if kind == "string":
            return self.read_string(base, length, padded)
        if kind == "blob":
            self.op("get_bytes")
            return self.r.get_bytes(self.r.remaining)
        return self.read_class(self.spec.structs[base])

    # class bodies ---------------------------------------------------------------------------
    def read_class(self, cd):
        r = self.r
        entry_mode = r.chunked
        start = r.pos
        obj = Obj(cd.name)
        frame = [cd.name, entry_mode, None]
        self.frames.append(frame)
        try:
            self.run_body(cd.body, obj, {}, start, cd.static_chunked)
            obj.byte_size = r.pos - start
        finally:
            r.chunked = entry_mode
            frame[2] = r.chunked
        return obj

    def length_of(self, ins, env):
        if ins.length is None:
            return None
        if ins.length.isdigit():
            return int(ins.length)
        return env[ins.length]

    def run_body(self, body, obj, env, start, static_chunked):
        r = self.r
        for ins in body:
            tag = ins.tag
            if tag == "field":
                if ins.optional:
                    present = r.remaining > 0
                    self.probes.add("optional_present" if present else "optional_absent")
                    if not present:
                        if ins.name is not None:
                            obj.fields[ins.name] = None
                            env[ins.name] = None
                        continue
                length = self.length_of(ins, env)
                v = self.read_value(ins.type, length, ins.padded)
                if ins.name is not None:
                    env[ins.name] = v
                    if ins.value is not None:        # named hardcoded field holds the declared constant
                        v = self.constant(ins)
                    obj.fields[ins.name] = v
            elif tag == "length":
                if ins.optional and not r.remaining > 0:
                    env[ins.name] = None
                    continue
                env[ins.name] = self.read_value(ins.type, offset=ins.offset)
            elif tag == "array":
                if ins.optional:
                    if not r.remaining > 0:
                        self.probes.add("optional_array_absent")
                        obj.fields[ins.name] = None
                        continue
                obj.fields[ins.name] = tuple(self.read_array(ins, env))
            elif tag == "dummy":
                if r.pos == start:
                    self.probes.add("dummy_read")
                    self.read_value(ins.type)
                else:
                    self.probes.add("dummy_skipped")
            elif tag == "switch":
                obj.fields[ins.field + "_data"] = self.read_switch(ins, env)
            elif tag == "chunked":
                if not static_chunked:
                    r.chunked = True
                self.run_body(ins.body, obj, env, start, True)
                if not static_chunked:
                    r.chunked = False
            elif tag == "break":
                self.op("next_chunk")
                r.next_chunk()

    def constant(self, ins):
        kind, base, wire = self.spec.resolve(ins.type)
        if kind == "int":
            return int(ins.value)
        if kind == "bool":
            return ins.value == "true"
        return ins.value

    def read_array(self, ins, env):
        r = self.r
        out = []
        n = self.length_of(ins, env)
        if n is None and not ins.delimited:
            size = self.spec.type_fixed_size(ins.type)
            if size is not None:
                n = r.remaining // size
                if r.remaining % size:
                    self.probes.add("array_partial_trailing_element_ignored")
        if n is None:
            while r.remaining > 0:
                out.append(self.read_value(ins.type))
                if ins.delimited:
                    self.op("next_chunk")
                    r.next_chunk()
                if len(out) > self.limit:
                    raise ModelStepLimit()
        else:
            explicit = ins.length is not None
            for i in range(n):
                out.append(self.read_value(ins.type))
                if ins.delimited and (ins.trailing or not explicit or i + 1 < n):
                    self.op("next_chunk")
                    r.next_chunk()
        return out

    def read_switch(self, ins, env):
        v = env.get(ins.field)
        if isinstance(v, EnumVal):
            enum = self.spec.enums[v.enum]
            key = v.value
        else:
            enum = None
            key = v
        chosen = None
        for c in ins.cases:
            if c.default:
                chosen = c
                break
            if enum is not None and not c.value.lstrip("-").isdigit():
                match = enum.by_name.get(c.value) == key
            else:
                match = key is not None and not isinstance(key, bool) and int(c.value) == key
            if match:
                chosen = c
                break
        if chosen is None:
            self.probes.add("switch_no_case")
            return None
        self.probes.add("switch_default" if chosen.default else "switch_case")
        if chosen.body is None:
            return None
        return self.read_class(chosen.body)


def read_walk(spec, class_name, data, chunked=False, step_limit=2_000_000):
    """-> (outcome, value, walk) with outcome in {'ok', 'ValueError'}"""
    walk = ReadWalk(spec, data, chunked, step_limit)
    try:
        obj = walk.read_class(spec.classes[class_name])
        return "ok", obj, walk
    except ModelValueError:
        return "ValueError", None, walk


# ---------------------------------------------------------------------------------------------
# WRITE WALK (sequence of writer primitives with the sanitisation mode expected at each)


class WriteAbort(Exception):
    """The value tree is not serializable (validation error at this point of the walk)."""


class WriteWalk:
    def __init__(self, spec, sanitize=False, emit=False):
        self.spec = spec
        self.sanitize = sanitize
        self.ops = []
        self.frames = []
        self.written = 0
        self.emit = emit          # also produce the bytes (None as soon as a value cannot be rendered)
        self.out = bytearray() if emit else None

    def op(self, kind, nbytes, args=None):
        self.ops.append((kind, self.sanitize))
        self.written += nbytes
        if self.out is not None:
            if args is None:
                self.out = None
                return
            try:
                from .writer_model import WriterModel
                wm = WriterModel()
                wm.sanitize = self.sanitize
                self.out += wm.image(kind, args)
            except Exception:  # noqa  (a value the writer would refuse: no byte image)
                self.out = None

    def write_int(self, wire, value=None):
        if isinstance(value, dict):
            value = value.get("v")
        elif isinstance(value, bool):
            value = int(value)
        elif isinstance(value, str):
            t = value.strip()
            value = {"true": 1, "false": 0}.get(t.lower(), None) if not t.lstrip("+-").isdigit() else int(t)
        self.op("add_" + wire, SIZES[wire], None if value is None else [value])

    def write_value(self, type_string, value, length=None, padded=False):
        kind, base, wire = self.spec.resolve(type_string)
        if kind in ("int", "bool", "enum"):
            self.write_int(wire, value)
        elif kind == "string":
            enc = base == "encoded_string"
            if length is None:
                self.op("add_encoded_string" if enc else "add_string", len(value), [value])
            else:
                self.op("add_fixed_encoded_string" if enc else "add_fixed_string", length, [value, length, bool(padded)])
        elif kind == "blob":
            self.op("add_bytes", len(value["blob"]) // 2, [bytes.fromhex(value["blob"])])
        else:
            self.write_class(self.spec.structs[base], value)

    def write_class(self, cd, value):
        entry = self.sanitize
        frame = [cd.name, entry, None]
        self.frames.append(frame)
        needs_len = self._needs_len(cd)
        start = self.written
        # which member each <length> field of this class counts (same scope, possibly inside <chunked>)
        refs = {}

        def scan(body):
            for ins in body:
                if ins.tag in ("field", "array") and ins.length is not None and not ins.length.lstrip("+-").isdigit():
                    refs[ins.length] = ins
                elif ins.tag == "chunked":
                    scan(ins.body)

        scan(cd.body)
        self._len_refs = getattr(self, "_len_refs", [])
        self._len_refs.append(refs)
        try:
            if needs_len:
                self.ops.append(("len", self.sanitize))
            self.run_body(cd.body, value["f"], start, cd.static_chunked, {"reached_missing": False})
        finally:
            self._len_refs.pop()
            self.sanitize = entry
            frame[2] = entry

    def _needs_len(self, cd):
        """A guarded dummy (one that is not the first code-emitting instruction) needs len(writer)."""
        state = {"emitted": False, "needs": False}

        def walk(body, static_chunked):
            for ins in body:
                if ins.tag == "dummy":
                    if state["emitted"]:
                        state["needs"] = True
                    state["emitted"] = True
                elif ins.tag == "chunked":
                    if not static_chunked:
                        state["emitted"] = True
                    walk(ins.body, True)
                else:
                    state["emitted"] = True

        walk(cd.body, cd.static_chunked)
        return state["needs"]

    def run_body(self, body, fields, start, static_chunked, st, emitted=None):
        emitted = emitted if emitted is not None else {"any": False}
        for ins in body:
            tag = ins.tag
            if tag in ("field", "array", "length"):
                emitted["any"] = True
                value = self._value_of(ins, fields)
                if ins.optional:
                    st["reached_missing"] = st["reached_missing"] or value is None
                    if st["reached_missing"]:
                        continue
                if tag == "array":
                    n = len(value)
                    for i, el in enumerate(value):
                        if ins.delimited and not ins.trailing and i > 0:
                            self.op("add_byte", 1, [0xFF])
                        self.write_value(ins.type, el)
                        if ins.delimited and ins.trailing:
                            self.op("add_byte", 1, [0xFF])
                elif tag == "length":
                    self.write_value(ins.type, value)
                else:
                    length = None
                    if ins.length is not None:
                        length = int(ins.length) if ins.length.isdigit() else len(value)
                    self.write_value(ins.type, value, length, ins.padded)
            elif tag == "dummy":
                if emitted["any"]:
                    self.ops.append(("len", self.sanitize))
                    if self.written == start:
                        self.write_value(ins.type, ins.value)
                else:
                    self.write_value(ins.type, ins.value)
                emitted["any"] = True
            elif tag == "switch":
                emitted["any"] = True
                data = fields.get(ins.field + "_data")
                if data is not None:
                    self.write_class(self.spec.classes[data["cls"]], data)
            elif tag == "chunked":
                if not static_chunked:
                    self.sanitize = True
                    emitted["any"] = True
                self.run_body(ins.body, fields, start, True, st, emitted)
                if not static_chunked:
                    self.sanitize = False
            elif tag == "break":
                emitted["any"] = True
                st["reached_missing"] = st["reached_missing"]  # a break does not reset the runtime flag
                self.op("add_byte", 1, [0xFF])

    def _value_of(self, ins, fields):
        if ins.tag == "length":
            if "$len:" + ins.name in fields:
                return fields["$len:" + ins.name]
            ref = (self._len_refs[-1] if getattr(self, "_len_refs", None) else {}).get(ins.name)
            member = fields.get(ref.name) if ref is not None else None
            if member is None:
                return 0 if not self.emit else None
            return len(member) - (ins.offset or 0)
        if ins.name is None:
            return ins.value
        if ins.value is not None:
            return ins.value
        return fields.get(ins.name)


def write_walk(spec, value, sanitize=False, emit=False):
    walk = WriteWalk(spec, sanitize, emit)
    walk.write_class(spec.classes[value["cls"]], value)
    return walk
