"""Reference codecs, written from the format description (shares no code with eolib)."""

B = 253
LIMITS = {"byte": 256, "char": B, "short": B * B, "three": B * B * B, "int": B * B * B * B}
SIZES = {"byte": 1, "char": 1, "short": 2, "three": 3, "int": 4}


def decode_number(bs):
    """sum of (byte-1)*253^i over the bytes before the first 0xFE, at most four bytes."""
    total = 0
    weight = 1
    for b in list(bs)[:4]:
        if b == 0xFE:
            break
        total += (b - 1) * weight
        weight *= B
    return total


def encode_number(n, size):
    """`size`-byte EO encoding of n (0 <= n < 253**size); absent high digits are 0xFE."""
    digits = []
    m = n
    for _ in range(4):
        digits.append(m % B)
        m //= B
    out = []
    for i in range(size):
        if i == 0 or n >= B ** i:
            out.append(digits[i] + 1)
        else:
            out.append(0xFE)
    return bytes(out)


def _flip(bs):
    """The position-dependent reflection of 0x22..0x7E used by both string directions."""
    out = bytearray(bs)
    n = len(out)
    for i, c in enumerate(out):
        if 0x22 <= c <= 0x7E:
            odd_slot = (n - i) % 2 == 1  # slots alternate, the last slot is always "odd"
            if not odd_slot:
                out[i] = 0x9F - c
            elif c >= 0x50:
                out[i] = 0x9F - c + 0x2E
            else:
                out[i] = 0x9F - c - 0x2E
    return out


def decode_string(bs):
    """wire bytes -> plain bytes: reverse, then reflect."""
    return bytes(_flip(bytes(bs)[::-1]))


def encode_string(bs):
    """plain bytes -> wire bytes: reflect, then reverse."""
    return bytes(_flip(bytes(bs))[::-1])


def cp1252_decode(bs):
    return bytes(bs).decode("cp1252", "replace")


def cp1252_encode(s):
    return s.encode("cp1252", "replace")
