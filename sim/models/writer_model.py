"""Reference model of EoWriter: a byte list and a sanitisation flag."""

from .codec_model import LIMITS, SIZES, encode_number, encode_string, cp1252_encode


class Rejected(Exception):
    pass


class WriterModel:
    def __init__(self):
        self.data = bytearray()
        self.sanitize = False

    def _str_bytes(self, s):
        bs = bytearray(cp1252_encode(s))
        if self.sanitize:
            bs = bytearray(0x79 if b == 0xFF else b for b in bs)
        return bs

    @staticmethod
    def _check_len(s, length, padded):
        if padded:
            if len(s) > length:
                raise Rejected()
        elif len(s) != length:
            raise Rejected()

    def image(self, op, args):
        """bytes that a valid write appends; raises Rejected for a write that must be refused."""
        if op == "add_byte":
            if args[0] > 0xFF:
                raise Rejected()
            return bytes([args[0]])
        if op == "add_bytes":
            return bytes(args[0])
        if op in ("add_char", "add_short", "add_three", "add_int"):
            kind = op[4:]
            if args[0] >= LIMITS[kind]:
                raise Rejected()
            return encode_number(args[0], SIZES[kind])
        if op == "add_string":
            return bytes(self._str_bytes(args[0]))
        if op == "add_encoded_string":
            return encode_string(self._str_bytes(args[0]))
        if op in ("add_fixed_string", "add_fixed_encoded_string"):
            s, length = args[0], args[1]
            padded = bool(args[2]) if len(args) > 2 else False
            self._check_len(s, length, padded)
            bs = self._str_bytes(s)
            if padded:
                bs = bs + b"\xff" * (length - len(bs))
            return bytes(bs) if op == "add_fixed_string" else encode_string(bs)
        raise KeyError(op)

    def apply(self, op, args):
        out = self.image(op, args)
        self.data += out
        return out
