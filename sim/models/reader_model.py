"""Uncached reference model of the documented chunked-reading rules."""

from .codec_model import decode_number, decode_string, cp1252_decode


class ModelRuntimeError(Exception):
    pass


class ModelValueError(Exception):
    pass


class ReaderModel:
    def __init__(self, data):
        self.data = bytes(data)
        self.pos = 0
        self.chunked = False
        self.chunk_start = 0

    # -- queries ---------------------------------------------------------------------------
    @property
    def brk(self):
        """index of the first 0xFF at or after the start of the current chunk, else len."""
        i = self.data.find(b"\xff", self.chunk_start)
        return len(self.data) if i < 0 else i

    @property
    def remaining(self):
        if self.chunked:
            b = self.brk
            return b - min(self.pos, b)
        return len(self.data) - self.pos

    # -- raw reads -------------------------------------------------------------------------
    def read(self, n):
        n = min(n, self.remaining)
        n = max(n, 0)
        out = self.data[self.pos : self.pos + n]
        self.pos += n
        return out

    def get_byte(self):
        b = self.read(1)
        return b[0] if b else 0

    def get_bytes(self, n):
        return self.read(n)

    def get_number(self, size):
        return decode_number(self.read(size))

    def get_char(self):
        return self.get_number(1)

    def get_short(self):
        return self.get_number(2)

    def get_three(self):
        return self.get_number(3)

    def get_int(self):
        return self.get_number(4)

    @staticmethod
    def _unpad(bs):
        i = bs.find(b"\xff")
        return bs if i < 0 else bs[:i]

    def get_string(self):
        return cp1252_decode(self.read(self.remaining))

    def get_fixed_string(self, n, padded=False):
        if n < 0:
            raise ModelValueError("negative length")
        bs = self.read(n)
        if padded:
            bs = self._unpad(bs)
        return cp1252_decode(bs)

    def get_encoded_string(self):
        return cp1252_decode(decode_string(self.read(self.remaining)))

    def get_fixed_encoded_string(self, n, padded=False):
        if n < 0:
            raise ModelValueError("negative length")
        bs = decode_string(self.read(n))
        if padded:
            bs = self._unpad(bs)
        return cp1252_decode(bs)

    # -- chunks ----------------------------------------------------------------------------
    def next_chunk(self):
        if not self.chunked:
            raise ModelRuntimeError("not chunked")
        p = self.brk
        if p < len(self.data):
            p += 1
        self.pos = p
        self.chunk_start = p

    def slice(self, index=None, length=None):
        if index is None:
            index = self.pos
        if length is None:
            length = max(0, len(self.data) - index)
        if index < 0 or length < 0:
            raise ModelValueError("negative")
        begin = min(index, len(self.data))
        end = min(begin + length, len(self.data))
        return ReaderModel(self.data[begin:end])
