"""Simulation core: seed derivation, named PRNG streams, trace digests, the parallel
plan/execute driver, minimisation, replay files, known findings and evidence files.

One integer (VERIF_SEED) decides everything:  seed_i = H(VERIF_SEED | check id | i); each
named stream of run i is random.Random(H(seed_i | name)).  No wall clock, PID, id() or
hash-order-dependent iteration takes part in any decision or any logged field.
"""

import faulthandler
import hashlib
import importlib
import json
import os
import random
import subprocess
import sys
import time
import traceback
from concurrent.futures import ProcessPoolExecutor, FIRST_COMPLETED, wait
import multiprocessing

from . import workspace

VERIF_DIR = os.path.dirname(os.path.dirname(os.path.abspath(__file__)))
KNOWN_FINDINGS = os.path.join(VERIF_DIR, "known_findings.json")
PYTHON = sys.executable

CHECKS = {
    "C03": "sim.checks.c03_hostile",
    "C04": "sim.checks.c04_pipe",
    "C05": "sim.checks.c05_reader",
    "C06": "sim.checks.c06_chunks",
    "C09": "sim.checks.c09_writer",
    "C12": "sim.checks.c12_seqstart",
    "C13": "sim.checks.c13_session",
    "C14": "sim.checks.c14_enums",
    "C15": "sim.checks.c15_modes",
    "C18": "sim.checks.c18_generator",
    "C19": "sim.checks.c19_immutable",
    "C20": "sim.checks.c20_namespace",
}


def load_check(check_id):
    return importlib.import_module(CHECKS[check_id])


# --------------------------------------------------------------------------------------------
# seeds and streams


def _h(*parts):
    return hashlib.sha256("|".join(str(p) for p in parts).encode()).digest()


def derive_seed(verif_seed, check_id, index):
    return int.from_bytes(_h("eolib-verif", verif_seed, check_id, index)[:8], "big")


class Streams:
    """Named, independent PRNG streams derived from one run seed."""

    def __init__(self, seed):
        self.seed = seed
        self._streams = {}

    def get(self, name):
        s = self._streams.get(name)
        if s is None:
            s = random.Random(int.from_bytes(_h("stream", self.seed, name)[:16], "big"))
            self._streams[name] = s
        return s


# --------------------------------------------------------------------------------------------
# traces and results


class Trace:
    """Append-only event log reduced to a SHA-256 digest (and optionally kept in full)."""

    __slots__ = ("_h", "steps", "events", "keep")

    def __init__(self, keep=False):
        self._h = hashlib.sha256()
        self.steps = 0
        self.keep = keep
        self.events = []

    def ev(self, *fields):
        self.steps += 1
        self._h.update(repr(fields).encode("utf-8", "backslashreplace"))
        if self.keep:
            self.events.append(fields)

    def digest(self):
        return self._h.hexdigest()


class Violation(Exception):
    """Raised by a scenario when an oracle fails; carries a deterministic signature."""

    def __init__(self, kind, signature, detail, step=None):
        super().__init__(f"{kind}: {detail}")
        self.kind = kind
        self.signature = signature
        self.detail = detail
        self.step = step

    def as_dict(self):
        return {
            "kind": self.kind,
            "signature": self.signature,
            "detail": self.detail,
            "step": self.step,
        }


class Result:
    def __init__(self):
        self.violation = None  # dict or None
        self.known = []  # violations matching open known findings (run continued past them)
        self.digest = ""
        self.steps = 0
        self.counters = {}
        self.keys = set()
        self.sim_time = 0.0
        self.evaluations = 1  # how many simulated runs this plan amounted to
        self.sample = None

    def count(self, name, n=1):
        self.counters[name] = self.counters.get(name, 0) + n


class Env:
    """What a scenario's execute() gets: the workspace, the repo path, known signatures."""

    def __init__(self, repo, known_signatures=()):
        self.repo = repo
        self.ws = workspace.get_workspace(repo)
        self.known = set(known_signatures)
        self.keep_trace = False
        self._skeleton_loaded = False
        self.eolib = None
        self.cache = {}

    def skeleton(self):
        """import eolib from the scratch copy with the minimal generated skeleton."""
        if not self._skeleton_loaded:
            self.eolib = self.ws.load_tree(workspace.skeleton_tree())
            self._skeleton_loaded = True
        return self.eolib

    def load_tree(self, tree):
        self._skeleton_loaded = False
        self.cache.clear()
        self.load_stage = "generate"       # where a failure happened, for callers that tell the two apart
        self.ws.generate(tree)
        self.load_stage = "import"
        self.eolib = self.ws.import_eolib()
        self.load_stage = None
        return self.eolib


def load_fixed_tree(env, key, tree_fn, check_id):
    """Generate + import a check's own (valid, hand-written) spec tree once per process.  Returns None, or the
    violation to report when the code under test cannot produce an importable package for it: the check cannot
    observe its property at all then (whether the generator is at fault is C18's question; the alarm is raised
    here as well so that it carries a VIOLATION line rather than a harness error)."""
    if env.cache.get(key):
        return None
    try:
        env.load_tree(tree_fn())
    except BaseException as e:  # noqa
        import re as _re
        text = _re.sub(r"/[^ '\"]*eolib-verif-[^ '\"]*", "<scratch>", f"{type(e).__name__}: {e}")[:300]
        return {"kind": "tree-unusable", "signature": f"{check_id}|tree-unusable|{getattr(env, 'load_stage', None) or 'generate'}",
                "detail": f"the check's own specification tree (valid: accepted and importable on the unchanged code) could not be "
                          f"{'imported' if getattr(env, 'load_stage', None) == 'import' else 'generated'}: {text}", "step": 0}
    env.cache[key] = True
    return None


# --------------------------------------------------------------------------------------------
# known findings


def load_known_findings():
    try:
        with open(KNOWN_FINDINGS, encoding="utf-8") as f:
            data = json.load(f)
    except FileNotFoundError:
        return {"open": [], "fixed": []}
    data.setdefault("open", [])
    data.setdefault("fixed", [])
    return data


def known_signatures(check_id):
    return {e["signature"]: e for e in load_known_findings()["open"] if e["property"] == check_id}


# --------------------------------------------------------------------------------------------
# worker side

_ENV = None


def _get_env(repo, check_id):
    """Per-process Env.  A forked child re-uses the Env (and scratch workspace) it inherited: the
    process that forks never executes a plan itself, so what it hands down is pristine."""
    global _ENV
    if _ENV is None or _ENV.repo != repo:
        _ENV = Env(repo, known_signatures(check_id).keys())
    else:
        _ENV.known = set(known_signatures(check_id).keys())
    return _ENV


def isolated(fn, *args):
    """Run fn(*args) in a forked child and return its result.

    Every batch of plans and every minimisation candidate runs in its own child, so process-global
    state of the code under test (caches, class registries, sys.modules) never leaks from one
    execution into another: a plan (plus its recorded prefix) is an exactly repeatable execution."""
    import pickle
    r, w = os.pipe()
    pid = os.fork()
    if pid == 0:
        code = 0
        try:
            os.close(r)
            try:
                out = ("ok", fn(*args))
            except BaseException as e:  # noqa
                out = ("err", "".join(traceback.format_exception(type(e), e, e.__traceback__)))
            with os.fdopen(w, "wb") as f:
                pickle.dump(out, f, protocol=pickle.HIGHEST_PROTOCOL)
        except BaseException:  # noqa
            code = 3
        finally:
            os._exit(code)
    os.close(w)
    with os.fdopen(r, "rb") as f:
        data = f.read()
    os.waitpid(pid, 0)
    if not data:
        raise RuntimeError("isolated child died without a result")
    kind, val = pickle.loads(data)
    if kind == "err":
        raise RuntimeError("in isolated child:\n" + val)
    return val


def run_one(mod, plan, env):
    """Execute one plan; never raises for oracle failures (they land in result.violation)."""
    try:
        res = mod.execute(plan, env)
    except Violation as v:  # scenarios may raise instead of returning
        res = Result()
        res.violation = v.as_dict()
    return res


def plan_for(mod, verif_seed, index, tier):
    seed_i = derive_seed(verif_seed, mod.ID, index)
    plan = mod.generate(Streams(seed_i), tier)
    plan["seed_index"] = index
    plan["run_seed"] = seed_i
    return plan


def plan_digest(plan):
    return hashlib.sha256(json.dumps(plan, sort_keys=True).encode()).hexdigest()


def _batch_body(check_id, verif_seed, indices, tier, repo, task_limit_s):
    faulthandler.dump_traceback_later(task_limit_s, exit=True)
    mod = load_check(check_id)
    env = _get_env(repo, check_id)
    out = {
        "evaluations": 0, "plans": 0, "steps": 0, "sim_time": 0.0, "counters": {}, "keys": set(),
        "samples": [], "violations": [], "known": [], "double_runs": 0, "double_mismatch": [],
        "digests": [],
    }
    executed = []
    for index in indices:
        plan = plan_for(mod, verif_seed, index, tier)
        plan["explore"] = True      # exploration run: directed known-finding cases ride along in plan 0
        res = run_one(mod, plan, env)
        out["plans"] += 1
        out["evaluations"] += res.evaluations
        out["steps"] += res.steps
        out["sim_time"] += res.sim_time
        for k, v in res.counters.items():
            out["counters"][k] = out["counters"].get(k, 0) + v
        out["keys"] |= res.keys
        out["digests"].append((index, plan_digest({k: v for k, v in plan.items() if k != "explore"})[:16], res.digest[:16]))
        if len(out["samples"]) < 2 and res.sample is not None:
            out["samples"].append(res.sample)
        for k in res.known:
            out["known"].append(k)
        if res.violation is not None:
            # the plans this child executed earlier are part of the failing execution
            # a violation found by a directed case names the concrete plan that reproduces it
            vplan = res.violation.pop("replan", None) or {k: v for k, v in plan.items() if k != "explore"}
            out["violations"].append({"index": index, "plan": vplan, "violation": res.violation,
                                      "prefix": [{k: v for k, v in p.items() if k != "explore"} for p in executed]})
            break
        executed.append(plan)
    return out


def _worker_batch(check_id, verif_seed, indices, tier, repo, double_every, task_limit_s):
    # no watchdog is armed in this process: a faulthandler timer armed before fork() dead-locks the
    # child's own dump_traceback_later(); the child arms one, and its death surfaces here as an error
    try:
        _get_env(repo, check_id)       # scratch workspace owned by this worker, inherited by children
        out = isolated(_batch_body, check_id, verif_seed, indices, tier, repo, task_limit_s)
        # determinism self-check: one batch in 16 is executed a second time in another pristine child
        if double_every and not out["violations"] and (indices[0] // max(1, len(indices))) % 16 == 0:
            again = isolated(_batch_body, check_id, verif_seed, indices, tier, repo, task_limit_s)
            out["double_runs"] += len(indices)
            if again["digests"] != out["digests"]:
                bad = [a[0] for a, b in zip(out["digests"], again["digests"]) if a != b]
                out["double_mismatch"].extend(bad or [indices[0]])
        return out
    finally:
        pass


def _seq_body(check_id, repo, plans, task_limit_s, keep_trace=False):
    """Execute plans in order in this (fresh) process; report the outcome of the last one."""
    faulthandler.dump_traceback_later(task_limit_s, exit=True)
    mod = load_check(check_id)
    env = _get_env(repo, check_id)
    env.known = set()
    res = None
    for plan in plans:
        res = run_one(mod, plan, env)
    return {"violation": res.violation, "digest": res.digest}


_PROBE = None


def probe(plan):
    """For shrinkers: outcome of `plan` executed (after the current prefix) in a pristine child."""
    return _PROBE(plan)


class _Outcome:
    def __init__(self, d):
        self.violation = d["violation"]
        self.digest = d["digest"]


def _worker_minimise(check_id, plan, prefix, signature, repo, budget, task_limit_s):
    global _PROBE
    try:
        mod = load_check(check_id)
        _get_env(repo, check_id)

        def outcome(plans):
            return isolated(_seq_body, check_id, repo, plans, task_limit_s)

        def fails(plans):
            try:
                o = outcome(plans)
            except Exception:
                return False
            return o["violation"] is not None and o["violation"]["signature"] == signature

        remaining = [budget]
        if fails([plan]):
            prefix = []
        elif prefix and fails(prefix + [plan]):
            prefix = ddmin(prefix, lambda p: fails(list(p) + [plan]), remaining)
        else:
            return plan, prefix, None, ""
        _PROBE = lambda cand: _Outcome(outcome(prefix + [cand]))  # noqa
        small = minimise(mod, plan, lambda cand: fails(prefix + [cand]), remaining)
        o = outcome(prefix + [small])
        if o["violation"] is None or o["violation"]["signature"] != signature:
            small = plan
            o = outcome(prefix + [small])
        return small, prefix, o["violation"], o["digest"]
    finally:
        _PROBE = None


# --------------------------------------------------------------------------------------------
# minimisation


def ddmin(items, test, budget):
    """Classic delta debugging over a list; `test(sub)` is True when `sub` still fails.
    `budget` is a one-element list holding the remaining number of test executions."""
    n = 2
    items = list(items)
    while len(items) >= 1 and budget[0] > 0:
        chunk = max(1, len(items) // n)
        reduced = False
        for start in range(0, len(items), chunk):
            if budget[0] <= 0:
                break
            candidate = items[:start] + items[start + chunk :]
            budget[0] -= 1
            if test(candidate):
                items = candidate
                n = max(n - 1, 2)
                reduced = True
                break
        if not reduced:
            if chunk == 1:
                break
            n = min(n * 2, len(items))
    return items


def minimise(mod, plan, still_fails, remaining):
    """Shrink `plan` while still_fails(candidate) (same violation signature, pristine process)."""
    if hasattr(mod, "shrink"):
        try:
            return mod.shrink(plan, still_fails, remaining)
        except Exception:
            traceback.print_exc()
            return plan
    for key in getattr(mod, "SHRINK_KEYS", ["ops"]):
        if isinstance(plan.get(key), list):

            def test(items, key=key):
                cand = dict(plan)
                cand[key] = items
                return still_fails(cand)

            plan = dict(plan)
            plan[key] = ddmin(plan[key], test, remaining)
    if hasattr(mod, "simplify"):
        try:
            plan = mod.simplify(plan, still_fails, remaining)
        except Exception:
            traceback.print_exc()
    return plan


# --------------------------------------------------------------------------------------------
# replay files


def write_replay(check_id, plan, violation, digest, tier, verif_seed, prefix=(), reproducible=True):
    d = os.path.join(VERIF_DIR, "replays", check_id)
    os.makedirs(d, exist_ok=True)
    sig = hashlib.sha256(violation["signature"].encode()).hexdigest()[:10]
    path = os.path.join(d, f"{check_id}-{sig}.json")
    doc = {
        "property": check_id,
        "verif_seed": verif_seed,
        "tier": tier,
        "violation": violation,
        "trace_digest": digest,
        "plan": plan,
        "prefix": list(prefix),   # plans executed earlier in the same process (usually empty)
    }
    if not reproducible:
        doc["reproducible"] = False
    with open(path, "w", encoding="utf-8") as f:
        json.dump(doc, f, indent=1, sort_keys=True)
    return path


def replay(path, repo="/repo", verbose=True):
    with workspace.scratch_session():
        return _replay(path, repo, verbose)


def _replay(path, repo="/repo", verbose=True):
    """Re-execute a replay file against `repo`; returns (reproduced, result)."""
    with open(path, encoding="utf-8") as f:
        doc = json.load(f)
    mod = load_check(doc["property"])
    env = Env(repo, ())  # known findings suppress nothing in replay
    for p in doc.get("prefix", []):
        run_one(mod, p, env)
    env.keep_trace = True
    res = run_one(mod, doc["plan"], env)
    want = doc["violation"]["signature"]
    got = res.violation["signature"] if res.violation else None
    same_digest = res.digest == doc.get("trace_digest")
    if verbose:
        print(f"replay property={doc['property']} expected_signature={want!r}")
        print(f"replay got_signature={got!r} trace_digest_match={same_digest}")
        if res.violation:
            print("replay detail:", res.violation["detail"])
    return (got == want), res, doc


# --------------------------------------------------------------------------------------------
# driver


TIER_DEFAULT_BUDGET = {"quick": 40.0, "thorough": 900.0}


def run_check(*args, **kwargs):
    with workspace.scratch_session():
        return _run_check(*args, **kwargs)


def _run_check(check_id, tier="quick", verif_seed=1, repo="/repo", workers=None, budget_s=None,
               max_plans=None, write_evidence=True, quiet=False):
    t0 = time.time()
    workspace.sweep_stale()
    mod = load_check(check_id)
    cfg = getattr(mod, "BUDGET", {})
    if budget_s is None:
        budget_s = float(os.environ.get("VERIF_BUDGET_S", 0) or 0) or cfg.get(
            tier, TIER_DEFAULT_BUDGET[tier]
        )
    if max_plans is None:
        max_plans = int(os.environ.get("VERIF_MAX_PLANS", 0) or 0) or None
    workers = workers or int(os.environ.get("VERIF_WORKERS", 0) or 0) or min(16, os.cpu_count() or 1)
    batch = getattr(mod, "BATCH", 50)
    double_every = getattr(mod, "DOUBLE_EVERY", 97)
    task_limit = getattr(mod, "TASK_LIMIT_S", 600)
    known = known_signatures(check_id)

    agg = {
        "evaluations": 0, "plans": 0, "steps": 0, "sim_time": 0.0, "counters": {}, "keys": set(),
        "samples": [], "violations": [], "known": {}, "double_runs": 0, "double_mismatch": [],
    }
    harness_errors = []
    next_index = 0
    ctx = multiprocessing.get_context("fork")
    stop = False
    with ProcessPoolExecutor(max_workers=workers, mp_context=ctx) as pool:
        pending = set()

        def submit():
            nonlocal next_index
            if max_plans is not None and next_index >= max_plans:
                return False
            hi = next_index + batch
            if max_plans is not None:
                hi = min(hi, max_plans)
            indices = list(range(next_index, hi))
            next_index = hi
            pending.add(pool.submit(_worker_batch, check_id, verif_seed, indices, tier, repo,
                                    double_every, task_limit))
            return True

        for _ in range(workers * 2):
            if not submit():
                break
        while pending:
            done, pending_now = wait(pending, return_when=FIRST_COMPLETED)
            pending.clear()
            pending.update(pending_now)
            for fut in done:
                try:
                    out = fut.result()
                except Exception as e:  # worker died or scenario crashed: harness error
                    harness_errors.append("".join(traceback.format_exception_only(type(e), e)))
                    stop = True
                    continue
                for k in ("evaluations", "plans", "steps", "sim_time", "double_runs"):
                    agg[k] += out[k]
                for k, v in out["counters"].items():
                    agg["counters"][k] = agg["counters"].get(k, 0) + v
                agg["keys"] |= out["keys"]
                if len(agg["samples"]) < 3:
                    agg["samples"].extend(out["samples"][: 3 - len(agg["samples"])])
                agg["double_mismatch"].extend(out["double_mismatch"])
                for kf in out["known"]:
                    agg["known"][kf["signature"]] = kf
                if out["violations"]:
                    agg["violations"].extend(out["violations"])
                    stop = True
            if not stop and time.time() - t0 < budget_s:
                while len(pending) < workers * 2:
                    if not submit():
                        break
        explore_wall = time.time() - t0

        # ---- violations: distinct signatures, minimise, write replay files
        reports = []
        unreproducible = []
        seen = set()
        for v in sorted(agg["violations"], key=lambda v: v["index"]):
            sig = v["violation"]["signature"]
            if sig in seen or len(seen) >= 3:
                continue
            seen.add(sig)
            try:
                viol = None
                for _attempt in range(3):
                    fut = pool.submit(_worker_minimise, check_id, v["plan"], v.get("prefix", []), sig, repo,
                                      getattr(mod, "SHRINK_BUDGET", 400), task_limit)
                    small, prefix, viol, dig = fut.result()
                    if viol is not None:
                        break
            except Exception as e:
                harness_errors.append("minimise: " + repr(e))
                continue
            if viol is None:
                # The oracle failed on what the real code returned, yet the same plans in a pristine process
                # pass: the harness is deterministic (double runs, selftest-determinism), so the behaviour of
                # the code under test depends on state the plan does not determine (object addresses, hash
                # seeds).  Reported as it was observed, unminimised, and marked as not reproducible.
                unreproducible.append(v)
                continue
            reports.append((dict(v, violation=viol), small, dig, prefix))

    exit_code = 0
    lines = []
    for v, small, dig, prefix in reports:
        # confirmation: the minimised plan must fail the same way, with the same trace digest,
        # in a fresh interpreter
        path = write_replay(check_id, small, v["violation"], dig, tier, verif_seed, prefix)
        proc = subprocess.run(
            [PYTHON, os.path.join(VERIF_DIR, "run.py"), "replay", path, "--repo", repo],
            capture_output=True, text=True, timeout=900,
        )
        if proc.returncode == 0 and "did not reproduce" in proc.stdout:
            # fails in a pristine forked process, passes in a fresh interpreter: state outside the plan again
            unreproducible.append(dict(v, plan=small, prefix=prefix))
            continue
        if proc.returncode != 1:
            harness_errors.append(
                f"violation {v['violation']['signature']!r} did not reproduce from its minimised "
                f"plan in a fresh process (exit {proc.returncode}):\n{proc.stdout}\n{proc.stderr}"
            )
            continue
        lines.append(f"VIOLATION property={check_id} replay={path}")
        lines.append(f"  signature: {v['violation']['signature']}")
        lines.append(f"  detail: {v['violation']['detail']}")
        exit_code = 1

    for v in unreproducible:
        path = write_replay(check_id, v["plan"], v["violation"], None, tier, verif_seed, v.get("prefix", []),
                            reproducible=False)
        lines.append(f"VIOLATION property={check_id} replay={path}")
        lines.append(f"  signature: {v['violation']['signature']}")
        lines.append(f"  detail: {v['violation']['detail']}")
        lines.append("  NOTE: observed once; re-executing the same plans in a pristine process passes - the code under "
                     "test depends on state outside the plan (e.g. object addresses), so the replay may not reproduce")
        exit_code = 1

    for sig, kf in sorted(agg["known"].items()):
        what = known.get(sig, {}).get("what", sig)
        lines.append(f"KNOWN-FINDING: property={check_id} {what}")

    if hasattr(mod, "post_check"):
        harness_errors.extend(mod.post_check(agg))
    if agg["double_mismatch"]:
        harness_errors.append(f"non-deterministic runs at seed indices {agg['double_mismatch'][:10]}")

    wall = time.time() - t0
    if write_evidence:
        write_evidence_file(mod, tier, verif_seed, agg, wall, explore_wall, workers,
                            violations=len([l for l in lines if l.startswith("VIOLATION")]))
    if not quiet:
        for line in lines:
            print(line)
        rate = agg["evaluations"] / max(explore_wall, 1e-9) * 3600
        print(f"{check_id} tier={tier} seed={verif_seed} plans={agg['plans']} "
              f"evaluations={agg['evaluations']} steps={agg['steps']} distinct={len(agg['keys'])} "
              f"wall={wall:.1f}s runs/h={rate:.3g} double_runs={agg['double_runs']}")
    if harness_errors:
        for e in harness_errors:
            print("HARNESS-ERROR:", e, file=sys.stderr)
        return 2 if exit_code == 0 else exit_code
    return exit_code


def write_evidence_file(mod, tier, verif_seed, agg, wall, explore_wall, workers, violations):
    counters = dict(sorted(agg["counters"].items()))
    faults = {k[6:]: v for k, v in counters.items() if k.startswith("fault.")}
    probes = {k[6:]: v for k, v in counters.items() if k.startswith("probe.")}
    for name in getattr(mod, "PROBES", []):
        probes.setdefault(name, 0)
    for name in getattr(mod, "FAULT_KINDS", []):
        faults.setdefault(name, 0)
    other = {k: v for k, v in counters.items() if not k.startswith(("fault.", "probe."))}
    hours = max(explore_wall, 1e-9) / 3600
    coverage = {
        "evaluations": agg["evaluations"],
        "distinct_nontrivial": len(agg["keys"]),
        "rule": mod.RULE,
        "samples": agg["samples"] or ["(no sample recorded)"],
        "exhaustive": bool(getattr(mod, "EXHAUSTIVE", False)),
        "plans": agg["plans"],
        "steps": agg["steps"],
        "simulated_runs_per_hour": round(agg["evaluations"] / hours),
        "seeds_per_hour": round(agg["plans"] / hours),
        "simulated_time": {"value": round(agg["sim_time"], 3),
                           "unit": getattr(mod, "SIM_TIME_UNIT", "none: the code under test reads no clock; steps are reported instead")},
        "faults_fired": faults,
        "probes": probes,
        "probes_at_zero": sorted(k for k, v in probes.items() if v == 0),
        "counters": other,
        "determinism_double_runs": agg["double_runs"],
        "workers": workers,
        "components": getattr(mod, "COMPONENTS", {}),
        "known_findings_hit": sorted(agg["known"].keys()),
    }
    if hasattr(mod, "coverage_extra"):
        coverage.update(mod.coverage_extra(agg))
    doc = {
        "property_id": mod.ID,
        "tier": tier,
        "seed": int(verif_seed),
        "level": mod.LEVEL,
        "coverage": coverage,
        "assumptions": getattr(mod, "ASSUMPTIONS", []),
        "wall_s": round(wall, 3),
        "violations": violations,
    }
    d = os.path.join(VERIF_DIR, "evidence")
    os.makedirs(d, exist_ok=True)
    tmp = os.path.join(d, f".{mod.ID}.json.tmp")
    with open(tmp, "w", encoding="utf-8") as f:
        json.dump(doc, f, indent=1, sort_keys=True, default=str)
        f.write("\n")
    os.replace(tmp, os.path.join(d, f"{mod.ID}.json"))


def digests(*args):
    with workspace.scratch_session():
        return _digests(*args)


def _digests(check_id, tier, verif_seed, repo, n, workers):
    """Per-seed (plan digest, trace digest) pairs, for the determinism self-test."""
    mod = load_check(check_id)
    batch = max(1, min(getattr(mod, "BATCH", 50), (n + workers - 1) // workers))
    ctx = multiprocessing.get_context("fork")
    rows = []
    with ProcessPoolExecutor(max_workers=workers, mp_context=ctx) as pool:
        futs = []
        for lo in range(0, n, batch):
            futs.append(pool.submit(_worker_batch, check_id, verif_seed,
                                    list(range(lo, min(n, lo + batch))), tier, repo, 0, 1800))
        for f in futs:
            rows.extend(f.result()["digests"])
    rows.sort()
    return rows
