"""Seams the simulator owns: the random source, the network, fault-raising reader/writer proxies."""

import heapq
import random as _random


class HarnessError(Exception):
    """The harness (not the code under test) is at fault; never reported as a violation."""


# ---------------------------------------------------------------------------------------------
# random source


class DrawLimit(BaseException):
    """The code under test keeps drawing from the random source (does not terminate in a bounded number of steps)."""


class SimRandom(_random.Random):
    """A random.Random whose every outcome is chosen by a script (the scheduler).

    Each draw consumes the next script entry, interpreted as an index into the draw's range;
    when the script is exhausted index 0 is used.  Every draw is logged as (lo, hi, value).
    Faithful on empty ranges: raises ValueError exactly like the real source.
    """

    MAX_DRAWS = 256       # per owner object; far beyond what any caller here needs (a liveness bound in steps)

    def __init__(self, script=()):
        super().__init__(0)
        self.script = list(script)
        self.cursor = 0
        self.log = []

    def _next_index(self, width):
        if self.cursor >= self.MAX_DRAWS:
            raise DrawLimit(f"more than {self.MAX_DRAWS} draws from the simulated random source")
        if self.cursor < len(self.script):
            idx = self.script[self.cursor]
        else:
            idx = 0
        self.cursor += 1
        if isinstance(idx, float):  # a fraction of the range
            idx = min(width - 1, int(idx * width))
        return idx % width

    def randrange(self, start, stop=None, step=1):
        if stop is None:
            start, stop = 0, start
        if step != 1:
            n = len(range(start, stop, step))
            if n <= 0:
                raise ValueError("empty range for randrange()")
            i = self._next_index(n)
            v = start + i * step
            self.log.append((start, stop, v))
            return v
        width = stop - start
        if width <= 0:
            self.log.append((start, stop, None))
            raise ValueError(f"empty range in randrange({start}, {stop})")
        v = start + self._next_index(width)
        self.log.append((start, stop, v))
        return v

    def randint(self, a, b):
        return self.randrange(a, b + 1)

    def _randbelow(self, n):
        return self.randrange(0, n)

    def getrandbits(self, k):
        if k <= 0:
            return 0
        return self.randrange(0, 1 << k)

    def random(self):
        return self.randrange(0, 1 << 53) / float(1 << 53)

    def randbytes(self, n):
        return bytes(self.randrange(0, 256) for _ in range(n))


class PerCallerRandom(SimRandom):
    """One scripted random source per caller thread (by thread name); every draw of a thread consumes that thread's
    script.  Used when two callers draw at the same time under sim/interleave.py."""

    def __init__(self, scripts):
        super().__init__(())
        self.per = {name: SimRandom(script) for name, script in scripts.items()}

    def randrange(self, start, stop=None, step=1):
        import threading
        inst = self.per.get(threading.current_thread().name)
        if inst is None:
            return super().randrange(start, stop, step)
        return inst.randrange(start, stop, step)


_GLOBAL_NAMES = ["randrange", "randint", "random", "getrandbits", "choice", "uniform", "randbytes",
                 "shuffle", "sample", "choices"]


class owned_random:
    """Context manager: puts `sim` behind `module.random` and behind the global random functions."""

    def __init__(self, module, sim):
        self.module = module
        self.sim = sim

    def __enter__(self):
        self._saved_attr = getattr(self.module, "random", None)
        self.module.random = self.sim
        self._saved_globals = {n: getattr(_random, n) for n in _GLOBAL_NAMES}
        for n in _GLOBAL_NAMES:
            setattr(_random, n, getattr(self.sim, n))
        # names imported with `from random import x` at module level are rebound too
        self._saved_names = {}
        for n in _GLOBAL_NAMES:
            cur = self.module.__dict__.get(n)
            if cur is not None and cur is self._saved_globals[n]:
                self._saved_names[n] = cur
                self.module.__dict__[n] = getattr(self.sim, n)
        return self.sim

    def __exit__(self, *exc):
        self.module.random = self._saved_attr
        for n, v in self._saved_globals.items():
            setattr(_random, n, v)
        for n, v in self._saved_names.items():
            self.module.__dict__[n] = v
        return False


# ---------------------------------------------------------------------------------------------
# discrete-event network with virtual time


class SimNet:
    """Discrete-event loop over (virtual time, sequence number); FIFO byte-message links."""

    def __init__(self, rng, min_latency=1, jitter=50):
        self.now = 0
        self.seq = 0
        self.q = []
        self.rng = rng
        self.min_latency = min_latency
        self.jitter = jitter
        self._last_delivery = {}
        self.delivered = 0

    def after(self, delay, fn, *args):
        self.seq += 1
        heapq.heappush(self.q, (self.now + delay, self.seq, fn, args))

    def send(self, link, handler, message):
        """FIFO link: a message is never delivered before one sent earlier on the same link."""
        latency = self.min_latency + self.rng.randrange(0, self.jitter + 1)
        at = max(self.now + latency, self._last_delivery.get(link, 0))
        self._last_delivery[link] = at
        self.seq += 1
        heapq.heappush(self.q, (at, self.seq, self._deliver, (handler, message)))

    def _deliver(self, handler, message):
        self.delivered += 1
        handler(message)

    def run(self, max_events=100000):
        n = 0
        while self.q:
            at, _, fn, args = heapq.heappop(self.q)
            self.now = at
            fn(*args)
            n += 1
            if n > max_events:
                raise HarnessError("event budget exceeded")
        return n


# ---------------------------------------------------------------------------------------------
# fault-raising reader / writer proxies (subclasses of the real classes)


class SimFault(Exception):
    """Injected failure of the Exception family (an I/O error of a failing reader/writer)."""


class SimCancel(BaseException):
    """Injected cancellation (KeyboardInterrupt-like): separates `finally` from `except Exception`."""


class StepCap(BaseException):
    """The step cap was exceeded: the call does not terminate within its bound."""


READER_OPS = ["get_byte", "get_bytes", "get_char", "get_short", "get_three", "get_int", "get_string",
              "get_fixed_string", "get_encoded_string", "get_fixed_encoded_string", "next_chunk"]
WRITER_OPS = ["add_byte", "add_bytes", "add_char", "add_short", "add_three", "add_int", "add_string",
              "add_fixed_string", "add_encoded_string", "add_fixed_encoded_string"]


def make_faulty_reader(EoReader):
    base_remaining = EoReader.remaining.fget

    base_mode = EoReader.chunked_reading_mode

    class FaultyReader(EoReader):
        def __init__(self, data, fault_at=None, exc=None, cap=2_000_000, detached=False):
            # detached: a subclass that keeps the mode in storage of its own behind the public property
            self.sim_detached = bool(detached)
            self.sim_mode = False
            super().__init__(data)
            self.sim_n = 0
            self.sim_log = []
            self.sim_fault_at = fault_at
            self.sim_exc = exc
            self.sim_cap = cap
            self.sim_rem = 0
            self.sim_fired = False
            self.sim_depth = 0

        def _tick(self, op):
            i = self.sim_n
            self.sim_n = i + 1
            self.sim_log.append((op, self.chunked_reading_mode))
            if i == self.sim_fault_at:
                self.sim_fired = True
                raise self.sim_exc
            if i >= self.sim_cap:
                raise StepCap()

        @property
        def chunked_reading_mode(self):
            return self.sim_mode if self.sim_detached else base_mode.fget(self)

        @chunked_reading_mode.setter
        def chunked_reading_mode(self, value):
            if self.sim_detached:
                self.sim_mode = value           # authoritative for this subclass; the base class is told as well
            base_mode.fset(self, value)

        @property
        def remaining(self):
            self.sim_rem += 1
            if self.sim_rem > 8 * self.sim_cap:
                raise StepCap()
            return base_remaining(self)

    def wrap(name):
        orig = getattr(EoReader, name)

        def method(self, *a, **kw):
            if self.sim_depth:               # internal call of one public method by another
                return orig(self, *a, **kw)
            self._tick(name)
            self.sim_depth = 1
            try:
                return orig(self, *a, **kw)
            finally:
                self.sim_depth = 0

        method.__name__ = name
        return method

    for name in READER_OPS:
        setattr(FaultyReader, name, wrap(name))
    return FaultyReader


def make_faulty_writer(EoWriter):
    base_wmode = EoWriter.string_sanitization_mode

    class FaultyWriter(EoWriter):
        def __init__(self, fault_at=None, exc=None, cap=2_000_000, detached=False):
            self.sim_detached = bool(detached)
            self.sim_mode = False
            super().__init__()
            self.sim_n = 0
            self.sim_log = []
            self.sim_fault_at = fault_at
            self.sim_exc = exc
            self.sim_cap = cap
            self.sim_fired = False
            self.sim_depth = 0

        def _tick(self, op):
            i = self.sim_n
            self.sim_n = i + 1
            self.sim_log.append((op, self.string_sanitization_mode))
            if i == self.sim_fault_at:
                self.sim_fired = True
                raise self.sim_exc
            if i >= self.sim_cap:
                raise StepCap()

        @property
        def string_sanitization_mode(self):
            return self.sim_mode if self.sim_detached else base_wmode.fget(self)

        @string_sanitization_mode.setter
        def string_sanitization_mode(self, value):
            if self.sim_detached:
                self.sim_mode = value           # authoritative for this subclass; the base class is told as well
            base_wmode.fset(self, value)

        def __len__(self):
            if not self.sim_depth:
                self._tick("len")
            return super().__len__()

    def wrap(name):
        orig = getattr(EoWriter, name)

        def method(self, *a, **kw):
            if self.sim_depth:               # internal call of one public method by another
                return orig(self, *a, **kw)
            self._tick(name)
            self.sim_depth = 1
            try:
                return orig(self, *a, **kw)
            finally:
                self.sim_depth = 0

        method.__name__ = name
        return method

    for name in WRITER_OPS:
        setattr(FaultyWriter, name, wrap(name))
    return FaultyWriter
