"""Seams the simulator owns: the random source, the network, fault-raising reader/writer proxies."""

import heapq
import random as _random


class HarnessError(Exception):
    """The harness (not the code under test) is at fault; never reported as a violation."""


# ---------------------------------------------------------------------------------------------
# random source


class SimRandom(_random.Random):
    """A random.Random whose every outcome is chosen by a script (the scheduler).

    Each draw consumes the next script entry, interpreted as an index into the draw's range;
    when the script is exhausted index 0 is used.  Every draw is logged as (lo, hi, value).
    Faithful on empty ranges: raises ValueError exactly like the real source.
    """

    def __init__(self, script=()):
        super().__init__(0)
        self.script = list(script)
        self.cursor = 0
        self.log = []

    def _next_index(self, width):
        if self.cursor < len(self.script):
            idx = self.script[self.cursor]
        else:
            idx = 0
        self.cursor += 1
        if isinstance(idx, float):  # a fraction of the range
            idx = min(width - 1, int(idx * width))
        return idx % width

    def randrange(self, start, stop=None, step=1):
        if stop is None:
            start, stop = 0, start
        if step != 1:
            n = len(range(start, stop, step))
            if n <= 0:
                raise ValueError("empty range for randrange()")
            i = self._next_index(n)
            v = start + i * step
            self.log.append((start, stop, v))
            return v
        width = stop - start
        if width <= 0:
            self.log.append((start, stop, None))
            raise ValueError(f"empty range in randrange({start}, {stop})")
        v = start + self._next_index(width)
        self.log.append((start, stop, v))
        return v

    def randint(self, a, b):
        return self.randrange(a, b + 1)

    def _randbelow(self, n):
        return self.randrange(0, n)

    def getrandbits(self, k):
        if k <= 0:
            return 0
        return self.randrange(0, 1 << k)

    def random(self):
        return self.randrange(0, 1 << 53) / float(1 << 53)

    def randbytes(self, n):
        return bytes(self.randrange(0, 256) for _ in range(n))


_GLOBAL_NAMES = ["randrange", "randint", "random", "getrandbits", "choice", "uniform", "randbytes",
                 "shuffle", "sample", "choices"]


class owned_random:
    """Context manager: puts `sim` behind `module.random` and behind the global random functions."""

    def __init__(self, module, sim):
        self.module = module
        self.sim = sim

    def __enter__(self):
        self._saved_attr = getattr(self.module, "random", None)
        self.module.random = self.sim
        self._saved_globals = {n: getattr(_random, n) for n in _GLOBAL_NAMES}
        for n in _GLOBAL_NAMES:
            setattr(_random, n, getattr(self.sim, n))
        # names imported with `from random import x` at module level are rebound too
        self._saved_names = {}
        for n in _GLOBAL_NAMES:
            cur = self.module.__dict__.get(n)
            if cur is not None and cur is self._saved_globals[n]:
                self._saved_names[n] = cur
                self.module.__dict__[n] = getattr(self.sim, n)
        return self.sim

    def __exit__(self, *exc):
        self.module.random = self._saved_attr
        for n, v in self._saved_globals.items():
            setattr(_random, n, v)
        for n, v in self._saved_names.items():
            self.module.__dict__[n] = v
        return False


# ---------------------------------------------------------------------------------------------
# discrete-event network with virtual time


class SimNet:
    """Discrete-event loop over (virtual time, sequence number); FIFO byte-message links."""

    def __init__(self, rng, min_latency=1, jitter=50):
        self.now = 0
        self.seq = 0
        self.q = []
        self.rng = rng
        self.min_latency = min_latency
        self.jitter = jitter
        self._last_delivery = {}
        self.delivered = 0

    def after(self, delay, fn, *args):
        self.seq += 1
        heapq.heappush(self.q, (self.now + delay, self.seq, fn, args))

    def send(self, link, handler, message):
        """FIFO link: a message is never delivered before one sent earlier on the same link."""
        latency = self.min_latency + self.rng.randrange(0, self.jitter + 1)
        at = max(self.now + latency, self._last_delivery.get(link, 0))
        self._last_delivery[link] = at
        self.seq += 1
        heapq.heappush(self.q, (at, self.seq, self._deliver, (handler, message)))

    def _deliver(self, handler, message):
        self.delivered += 1
        handler(message)

    def run(self, max_events=100000):
        n = 0
        while self.q:
            at, _, fn, args = heapq.heappop(self.q)
            self.now = at
            fn(*args)
            n += 1
            if n > max_events:
                raise HarnessError("event budget exceeded")
        return n
