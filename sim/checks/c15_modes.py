"""C15 - (De)serialization leaves reader and writer modes as it found them.

Seams: FaultyWriter / FaultyReader (subclasses of the real classes) count every public call,
record (operation, mode in force) and raise an injected exception at the planned call index;
every generated class (case-data classes included) has serialize/deserialize wrapped to record
a frame (class, entry mode, exit mode) on ANY exit.  For every (class, input, entry mode) the
fault-free run is followed by one run per call index k, for an Exception and for a
BaseException; further failing runs come from invalid objects and hostile bytes.
"""

import random

from ..core import Result, Trace
from ..gen import specgen, valuegen
from ..models.spec_model import read_walk, write_walk, ModelStepLimit
from ..models.reader_model import ModelRuntimeError
from ..seams import SimFault, SimCancel, StepCap
from ..treeenv import get_tree_env, TreeRejected, closure, prune_tree, element_deletions, shape_features
from .c03_hostile import apply_faults, _biased_byte, shape_hash

ID = "C15"
LEVEL = "fault_enumeration"
SELFTEST_N = 64
BATCH = 2
DOUBLE_EVERY = 41
TASK_LIMIT_S = 1200
BUDGET = {"quick": 35.0, "thorough": 1200.0}
SHRINK_BUDGET = 300
RULE = (
    "one evaluation = one serialize or deserialize call of a real generated class under a FaultyWriter/FaultyReader; "
    "for every (class, input, entry mode) the fault-free run is followed by one run per primitive-call index k (all k "
    "when N <= 400, else 64 seeded indices) for an injected Exception and an injected BaseException, plus data-driven "
    "failures (invalid objects, hostile bytes); distinct = distinct (class shape hash, direction, operation kind at the "
    "fault point, frame depth at the fault point, exception kind, entry mode); non-trivial = a run that failed part-way"
)
ASSUMPTIONS = [
    "reference interpreter gives the mode expected at each primitive operation; runs whose operation sequence does not align with it are counted as 'unaligned' and judged only by the frame/exit oracles (they are conformance divergences, C02/C03 domain)",
    "spec trees from sim/gen/specgen.py (valid, non-degenerate)",
    "fault points are the public reader/writer calls (get_*, add_*, next_chunk, len)",
]
COMPONENTS = {
    "real": ["protocol_code_generator (run per tree)", "generated serialize/deserialize incl. nested case-data classes", "EoReader/EoWriter (subclassed)"],
    "stub_or_harness": ["FaultyReader/FaultyWriter proxies", "frame wrappers", "reference interpreter (expected mode per operation)", "spec/value/fault generators"],
}
FAULT_KINDS = ["writer_exception", "writer_cancel", "reader_exception", "reader_cancel", "invalid_object", "hostile_bytes_error"]
PROBES = ["documented_parameter_names", "mode_kept_by_a_subclass_property", "bytes_compared_with_reference", "wire_differs_otherwise", "packet_write_method", "fault_at_first_call", "fault_at_last_call", "fault_in_nested_frame", "fault_three_frames_deep",
          "entry_mode_true_on_class_with_chunked", "fault_on_add_byte", "fault_on_next_chunk", "unaligned", "aligned",
          "serialize_failed_value_skipped", "nested_frames_checked"]


def generate(streams, tier):
    rng = streams.get("spec")
    tree = specgen.gen_tree(rng, "full")
    prng = streams.get("plan")
    return {"tree": tree, "tier": tier, "case_seed": prng.randrange(1 << 30),
            "values_per_class": 2 if tier == "quick" else 4, "byte_inputs_per_class": 3 if tier == "quick" else 8}


# ---------------------------------------------------------------------------------------------


def install_frames(te):
    """Wrap serialize/deserialize of every generated class so that each call records a frame."""
    if getattr(te, "c15_frames", None) is not None:
        return
    te.c15_frames = []

    def wrap(cls, cls_name, which, mode_attr):
        orig = cls.__dict__[which].__func__

        # transparent: the call reaches the generated method in the form it was made (positional or by keyword)
        if which == "serialize":
            def wrapper(*args, **kwargs):
                writer = args[0] if args else kwargs.get("writer")
                frame = [cls_name, getattr(writer, mode_attr), None, writer.sim_n if hasattr(writer, "sim_n") else 0]
                te.c15_frames.append(frame)
                try:
                    return orig(*args, **kwargs)
                finally:
                    frame[2] = getattr(writer, mode_attr)
        else:
            def wrapper(*args, **kwargs):
                reader = args[0] if args else kwargs.get("reader")
                frame = [cls_name, getattr(reader, mode_attr), None, reader.sim_n if hasattr(reader, "sim_n") else 0]
                te.c15_frames.append(frame)
                try:
                    return orig(*args, **kwargs)
                finally:
                    frame[2] = getattr(reader, mode_attr)
        setattr(cls, which, staticmethod(wrapper))

    for name in te.spec.classes:
        cls = te.bridge.cls(name)
        wrap(cls, name, "serialize", "string_sanitization_mode")
        wrap(cls, name, "deserialize", "chunked_reading_mode")


class Runner:
    def __init__(self, te, res, tr):
        self.te, self.res, self.tr = te, res, tr

    def fail(self, kind, direction, detail, case):
        self.res.violation = {"kind": kind, "signature": f"C15|{kind}|{direction}", "detail": detail,
                              "step": self.tr.steps, "case": case}
        return False

    # one call ---------------------------------------------------------------------------------
    def call(self, direction, cls_name, payload, entry, fault_at, exc_kind, case):
        """Run one (de)serialize call; returns (ok, proxy, exception or None)."""
        te = self.te
        cls = te.bridge.cls(cls_name)
        exc = {"exception": SimFault("injected"), "cancel": SimCancel("injected")}.get(exc_kind)
        del te.c15_frames[:]
        if direction == "serialize":
            detached = (fault_at if fault_at is not None else int(bool(entry)) + 1) % 3 == 2
            if detached:
                self.res.count("probe.mode_kept_by_a_subclass_property")
            proxy = te.FaultyWriter(fault_at, exc, cap=400_000, detached=detached)
            proxy.string_sanitization_mode = entry
            # packets are also written through their generated write() method (every other fault index, and the
            # fault-free run that starts in sanitising mode)
            via_write = hasattr(payload, "write") and (fault_at % 2 == 1 if fault_at is not None else bool(entry))
            by_keyword = (fault_at if fault_at is not None else 3 * int(bool(entry))) % 4 == 3
            if via_write:
                self.res.count("probe.packet_write_method")
                fn = (lambda: payload.write(writer=proxy)) if by_keyword else (lambda: payload.write(proxy))      # noqa
            elif by_keyword:
                self.res.count("probe.documented_parameter_names")
                fn = lambda: cls.serialize(writer=proxy, data=payload)      # noqa
            else:
                fn = lambda: cls.serialize(proxy, payload)          # noqa
            mode = lambda: bool(proxy.string_sanitization_mode)  # noqa
        else:
            detached = (fault_at if fault_at is not None else int(bool(entry)) + 1) % 3 == 2
            if detached:
                self.res.count("probe.mode_kept_by_a_subclass_property")
            proxy = te.FaultyReader(payload, fault_at, exc, cap=400_000, detached=detached)
            proxy.chunked_reading_mode = entry
            if (fault_at if fault_at is not None else 3 * int(bool(entry))) % 4 == 3:
                self.res.count("probe.documented_parameter_names")
                fn = lambda: cls.deserialize(reader=proxy)           # noqa
            else:
                fn = lambda: cls.deserialize(proxy)                  # noqa
            mode = lambda: bool(proxy.chunked_reading_mode)      # noqa
        raised = None
        try:
            fn()
        except StepCap:
            raised = "StepCap"      # non-termination is C03's business
        except BaseException as e:  # noqa
            raised = e
        self.res.evaluations += 1
        frames = [list(f) for f in te.c15_frames]
        self.tr.ev(direction, cls_name, entry, fault_at, exc_kind, type(raised).__name__ if raised is not None else None,
                   proxy.sim_n, mode())
        how = "returned" if raised is None else f"raised {raised if isinstance(raised, str) else type(raised).__name__}"
        for depth, f in enumerate(frames):
            if f[2] is None or bool(f[2]) != bool(f[1]):
                return self.fail("frame-mode-not-restored", direction,
                                 f"{f[0]}.{direction} entered with mode {f[1]} and left with {f[2]} (call {how}; "
                                 f"top-level {cls_name}, entry mode {entry}, fault at call {fault_at} [{exc_kind}])", case), proxy, raised
        if len(frames) > 1:
            self.res.count("probe.nested_frames_checked")
        if mode() != bool(entry):
            return self.fail("mode-not-restored", direction,
                             f"{cls_name}.{direction} entered with mode {entry}, {how}, and left the mode {mode()} "
                             f"(fault at call {fault_at} [{exc_kind}])", case), proxy, raised
        return True, proxy, raised

    # a full fault enumeration over one input -----------------------------------------------------
    def enumerate(self, direction, cls_name, payload, entry, model_ops, rng, case):
        res = self.res
        ok, proxy, raised = self.call(direction, cls_name, payload, entry, None, None, dict(case, fault_at=None))
        if not ok:
            return False
        cd = self.te.spec.classes[cls_name]
        if entry and any(i.tag == "chunked" for i in cd.body):
            res.count("probe.entry_mode_true_on_class_with_chunked")
        log = list(proxy.sim_log)
        if raised is not None and raised != "StepCap" and direction == "deserialize":
            res.count("fault.hostile_bytes_error")
        # oracle 4 (the "consequently" half, on the bytes): what was written differs from the reference bytes ONLY in
        # y-diaeresis <-> 'y', i.e. something was sanitised that should not have been or the other way round.  Any other
        # difference is a wire-format matter (property C02), counted but not judged here.
        if direction == "serialize" and raised is None and getattr(model_ops, "out", None) is not None:
            real = bytes(proxy.to_bytearray())
            want = model_ops.out
            res.count("probe.bytes_compared_with_reference")
            if real != want:
                if len(real) == len(want) and real.replace(b"\xff", b"y") == want.replace(b"\xff", b"y"):
                    at = next(i for i, (a, b) in enumerate(zip(real, want)) if a != b)
                    return self.fail("sanitised-bytes", direction,
                                     f"{cls_name}.serialize (entry mode {entry}) wrote {real.hex()}; the declaration prescribes "
                                     f"{want.hex()} - byte {at} is {'un' if real[at] == 0xFF else ''}sanitised against it",
                                     dict(case, fault_at=None))
                res.count("probe.wire_differs_otherwise")
        # oracle 3: the mode in force at each primitive operation
        if model_ops is not None:
            kinds_real = [k for k, _ in log]
            kinds_model = [k for k, _ in model_ops]
            if kinds_real == kinds_model or (raised is not None and kinds_real == kinds_model[:len(kinds_real)]):
                res.count("probe.aligned")
                for i, ((k, m_real), (_, m_model)) in enumerate(zip(log, model_ops)):
                    if bool(m_real) != bool(m_model):
                        return self.fail("mode-at-operation", direction,
                                         f"{cls_name}.{direction} (entry mode {entry}): call #{i} {k} ran with mode "
                                         f"{bool(m_real)}, the declaration puts it in mode {bool(m_model)}", dict(case, fault_at=None))
            else:
                res.count("probe.unaligned")
        n = len(log)
        if n == 0:
            return True
        indices = range(n) if n <= 400 else sorted(rng.sample(range(n), 64))
        shape = shape_hash(cd)
        for k in indices:
            for exc_kind in ("exception", "cancel"):
                ok, p2, raised2 = self.call(direction, cls_name, payload, entry, k, exc_kind, dict(case, fault_at=k, exc=exc_kind))
                if not ok:
                    return False
                if not p2.sim_fired:
                    continue
                who = "writer" if direction == "serialize" else "reader"
                res.count(f"fault.{who}_{exc_kind}")
                depth = sum(1 for f in self.te.c15_frames if f[3] <= k)
                if k == 0:
                    res.count("probe.fault_at_first_call")
                if k == n - 1:
                    res.count("probe.fault_at_last_call")
                if depth >= 2:
                    res.count("probe.fault_in_nested_frame")
                if depth >= 3:
                    res.count("probe.fault_three_frames_deep")
                if log[k][0] == "add_byte":
                    res.count("probe.fault_on_add_byte")
                if log[k][0] == "next_chunk":
                    res.count("probe.fault_on_next_chunk")
                res.keys.add(f"{shape}|{direction}|{log[k][0]}|{min(depth, 3)}|{exc_kind}|{int(entry)}")
        return True


def corrupt_value(value, rng, spec):
    """One declaration-violating change somewhere in a value tree (in place); returns a description."""
    nodes = []

    def walk(v):
        if isinstance(v, dict) and "f" in v:
            nodes.append(v)
            for x in v["f"].values():
                walk(x)
        elif isinstance(v, list):
            for x in v:
                walk(x)

    walk(value)
    node = rng.choice(nodes)
    if not node["f"]:
        return None
    name = rng.choice(sorted(node["f"]))
    cur = node["f"][name]
    r = rng.random()
    if r < 0.35 or cur is None:
        node["f"][name] = None
        return f"{node['cls']}.{name}=None"
    if isinstance(cur, bool):
        node["f"][name] = None
    elif isinstance(cur, int):
        node["f"][name] = 253 ** 4 + rng.randrange(3)
    elif isinstance(cur, str):
        node["f"][name] = cur + "x" * rng.choice([1, 300, 70000])
    elif isinstance(cur, list):
        node["f"][name] = (cur[:-1] if rng.random() < 0.4 else cur + cur[:1] * 3) if cur else [None]
    elif isinstance(cur, dict) and "enum" in cur:
        node["f"][name] = {"enum": cur["enum"], "v": 253 ** 4 + 5}
    elif isinstance(cur, dict) and "f" in cur:
        node["f"][name] = 7
    else:
        node["f"][name] = None
    return f"{node['cls']}.{name} corrupted"


def execute(plan, env):
    res = Result()
    res.evaluations = 0
    tr = Trace(keep=env.keep_trace)
    try:
        te = get_tree_env(env, plan["tree"])
    except TreeRejected as e:
        res.count("probe.tree_rejected")
        res.evaluations = 1
        res.digest = tr.digest()
        return res
    install_frames(te)
    run = Runner(te, res, tr)
    if "cases" not in plan:
        for f in shape_features(te.spec):
            res.count("shape." + f)
    if "cases" in plan:
        for c in plan["cases"]:
            _run_case(run, te, c)
            if res.violation:
                break
    else:
        rng = random.Random(plan["case_seed"])
        ops_left = [1_500_000 if plan.get("tier") == "quick" else 6_000_000]
        for cd in sorted(te.all_classes(), key=lambda c: c.name):
            if ops_left[0] <= 0:
                res.count("plan_op_budget_exhausted")
                break
            if not _class_cases(run, te, cd, plan, rng, ops_left):
                break
    if res.evaluations == 0:
        res.evaluations = 1
    res.digest = tr.digest()
    res.steps = tr.steps
    res.sample = {"classes": len(te.spec.classes), "calls": res.evaluations}
    return res


class _Ops(list):
    """the reference operation list, carrying the reference bytes (or None) as an attribute"""
    out = None


def _model_write_ops(te, value, entry):
    try:
        walk = write_walk(te.spec, value, entry, emit=True)
        ops = _Ops(walk.ops)
        ops.out = bytes(walk.out) if walk.out is not None else None
        return ops
    except Exception:
        return None


def _model_read_ops(te, cls_name, data, entry):
    try:
        outcome, obj, walk = read_walk(te.spec, cls_name, data, entry, step_limit=1_600_000)
        return walk.ops
    except (ModelStepLimit, ModelRuntimeError):
        return None


def _run_case(run, te, c):
    """Concrete case from a replay file."""
    rng = random.Random(0)
    entry = bool(c["entry"])
    if c["direction"] == "serialize":
        try:
            payload = te.bridge.instantiate(c["value"])
        except Exception:
            return True
        model_ops = _model_write_ops(te, c["value"], entry) if not c.get("invalid") else None
    else:
        payload = bytes.fromhex(c["data"])
        model_ops = _model_read_ops(te, c["cls"], payload, entry)
    if "fault_at" in c and c["fault_at"] is not None:
        ok, _, _ = run.call(c["direction"], c["cls"], payload, entry, c["fault_at"], c.get("exc", "exception"), c)
        return ok
    if c.get("single"):
        ok, _, _ = run.call(c["direction"], c["cls"], payload, entry, None, None, c)
        if not ok or model_ops is None:
            return ok
    return run.enumerate(c["direction"], c["cls"], payload, entry, model_ops, rng, c)


def _class_cases(run, te, cd, plan, rng, ops_left):
    vg = valuegen.ValueGen(te.spec, rng)
    real_cls = te.bridge.cls(cd.name)
    res = run.res
    datas = []
    for _ in range(plan["values_per_class"]):
        try:
            val = vg.gen_class(cd)
            obj = te.bridge.instantiate(val)
            w = te.EoWriter()
            real_cls.serialize(w, obj)
            data = bytes(w.to_bytearray())
        except Exception:
            res.count("probe.serialize_failed_value_skipped")
            continue
        if len(data) > 2048:
            continue
        datas.append(data)
        for entry in (False, True):
            case = {"direction": "serialize", "cls": cd.name, "value": val, "entry": entry}
            before = res.evaluations
            if not run.enumerate("serialize", cd.name, obj, entry, _model_write_ops(te, val, entry), rng, case):
                return False
            ops_left[0] -= (res.evaluations - before) * max(1, len(data) // 2)
        # data-driven failure: an invalid object
        import copy
        bad = copy.deepcopy(val)
        what = corrupt_value(bad, rng, te.spec)
        if what:
            try:
                bad_obj = te.bridge.instantiate(bad)
            except Exception:
                bad_obj = None
            if bad_obj is not None:
                for entry in (False, True):
                    case = {"direction": "serialize", "cls": cd.name, "value": bad, "entry": entry, "invalid": what, "single": True}
                    ok, proxy, raised = run.call("serialize", cd.name, bad_obj, entry, None, None, case)
                    if not ok:
                        return False
                    if raised is not None:
                        res.count("fault.invalid_object")
                        res.keys.add(f"{shape_hash(cd)}|serialize|invalid|{type(raised).__name__ if not isinstance(raised, str) else raised}|{int(entry)}")
    # deserialize: valid, truncated, corrupted, random
    inputs = []
    for data in datas[:2]:
        inputs.append(data)
        if data:
            inputs.append(data[: rng.randrange(0, len(data))])
            faults = []
            for _ in range(rng.choice([1, 2, 3])):
                k = rng.choice(["flip", "flip", "insert", "delete", "junk_ff"])
                if k in ("flip", "insert"):
                    faults.append([k, rng.randrange(0, len(data) + 1), _biased_byte(rng)])
                elif k == "delete":
                    faults.append([k, rng.randrange(0, len(data))])
                else:
                    faults.append([k, bytes(rng.choice([0xFF, 0xFE, 0x00, rng.randrange(256)]) for _ in range(rng.randrange(1, 6))).hex()])
            inputs.append(apply_faults(data, faults))
    inputs.append(bytes(_biased_byte(rng) for _ in range(rng.choice([0, 3, 9, 20]))))
    for data in inputs[: plan["byte_inputs_per_class"] + 2]:
        for entry in (False, True):
            if ops_left[0] <= 0:
                return True
            case = {"direction": "deserialize", "cls": cd.name, "data": data.hex(), "entry": entry}
            before = res.evaluations
            if not run.enumerate("deserialize", cd.name, data, entry, _model_read_ops(te, cd.name, data, entry), rng, case):
                return False
            ops_left[0] -= (res.evaluations - before) * max(1, len(data) // 2)
    return True


def shrink(plan, still_fails, budget):
    from .. import core
    res = core.probe(plan)
    if res.violation is None or "case" not in res.violation:
        return plan
    case = res.violation["case"]
    best = {"tree": plan["tree"], "cases": [case], "seed_index": plan.get("seed_index"), "run_seed": plan.get("run_seed")}
    if not still_fails(best):
        return plan
    keep = closure(best["tree"], [case["cls"]])
    cand = dict(best, tree=prune_tree(best["tree"], keep))
    budget[0] -= 3
    if still_fails(cand):
        best = cand
    if case["direction"] == "deserialize" and case.get("fault_at") is None:
        from ..core import ddmin

        def test(bs):
            return still_fails(dict(best, cases=[dict(case, data=bytes(bs).hex())]))

        small = ddmin(list(bytes.fromhex(case["data"])), test, budget)
        case = dict(case, data=bytes(small).hex())
        best = dict(best, cases=[case])
    progress = True
    while progress and budget[0] > 0 and case["direction"] == "deserialize":
        progress = False
        for cand_tree in element_deletions(best["tree"], case["cls"]):
            if budget[0] <= 0:
                break
            budget[0] -= 1
            cand = dict(best, tree=cand_tree)
            if still_fails(cand):
                best = cand
                progress = True
                break
    return best


def post_check(agg):
    rejected = agg["counters"].get("probe.tree_rejected", 0) + agg["counters"].get("tree_rejected", 0)
    if agg["plans"] and rejected * 2 > agg["plans"]:
        return [f"{rejected} of {agg['plans']} spec trees were rejected by the generator or failed to import: "
                "nothing was explored (C18 decides whether the generator is at fault)"]
    return []


LEVEL_TEXT = (
    "Fault enumeration: for every class of a seeded spec tree, every generated value / byte input and both entry "
    "modes, an exception is injected at every public reader/writer call index (Exception and BaseException families), "
    "and invalid objects / hostile bytes provide data-driven failures; every frame at every nesting level must exit "
    "with the mode it entered with, the top-level object must be left in its entry mode, and where the call sequence "
    "aligns with the reference interpreter the mode in force at each primitive operation must equal the declared one. "
    "Fault points are enumerated completely per input (N <= 400); trees, values and inputs are sampled."
)
LEVEL_NOTE = (
    "Trusted: frame wrappers and proxies (harness), reference interpreter for the per-operation mode. Unaligned runs "
    "are judged only by the exit/frame oracles."
)
TECHNIQUE = "deterministic fault injection at every reader/writer call index (exception and cancellation) with frame-level mode invariants and a reference interpreter for per-operation modes"
