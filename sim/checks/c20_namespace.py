"""C20 - The public namespace resolves every documented name to the right object.

sys.modules and the package namespaces are process-global state mutated by every import; what
a dotted name resolves to depends on the ORDER of imports and on every module name the
generator derives from the spec.  Per generated tree, fresh child interpreters execute seeded
sequences of import statements (all statement forms, static and generated modules, leaves and
packages), always ending with `import eolib`; afterwards every documented module must be
reachable by attribute access and be the module the import system resolves, and every public
name must be one and the same object via eolib, its home subpackage and its defining module.
"""

import ast
import json
import os
import random
import subprocess
import sys

from ..core import Result, Trace, VERIF_DIR
from ..gen import specgen
from ..models.spec_model import Spec, snake_case

ID = "C20"
LEVEL = "exploration"
SELFTEST_N = 32
BATCH = 1
DOUBLE_EVERY = 29
TASK_LIMIT_S = 1800
BUDGET = {"quick": 35.0, "thorough": 900.0}
SHRINK_BUDGET = 40
RULE = (
    "one evaluation = one fresh child interpreter executing a seeded sequence of 1-6 import statements over the "
    "modules of one generated tree (forms: import a.b.c / import a.b.c as x / from a.b import c / from a.b import *), "
    "ending with import eolib, followed by the namespace invariants over every documented module and public name; "
    "distinct = distinct (tree shape, kind of the first imported module {static leaf, static package, generated leaf, "
    "generated package, eolib}, statement form); non-trivial = the first import is not plain `import eolib`"
)
ASSUMPTIONS = [
    "documented modules = every module under eolib outside _generated whose name has no leading underscore",
    "public names of a module = its own top-level classes, functions and constants without leading underscore, restricted by __all__ when present",
    "type names whose module name equals a documented package, module or function (Data, Net, Interleave, ...) ARE generated (only the class is "
    "exported); only (directory, name) pairs that would put a module next to a package of the same name are excluded",
    "type names equal to a name the generated modules themselves import or to a public class of the hand-written library (specgen.FORBIDDEN_TYPE_NAMES: Optional, Iterable, Union, EoWriter, SerializationError, Packet, ...) are not generated: identifiers colliding with generated code are degenerate per the properties; observed outside the explored domain: a struct named Optional next to an optional field makes the package unimportable",
]
COMPONENTS = {
    "real": ["eolib package (static modules + generated tree)", "Python import system in a fresh interpreter per run", "real generator (in-process) per tree"],
    "stub_or_harness": ["import-sequence generator", "namespace invariant checker (child side)", "spec generator"],
}
FAULT_KINDS = ["first_import_order"]
PROBES = ["package_tree_walked_and_imported", "library_used_before_namespace_walk", "first_import_generated_leaf", "first_import_net_packet_module", "import_as_form", "star_import_form",
          "first_import_static_leaf", "first_import_generated_package"]
CHILD = os.path.join(VERIF_DIR, "sim", "child.py")


_HDR = '<?xml version="1.0" encoding="UTF-8"?>\n'
_EMPTY = _HDR + "<protocol>\n</protocol>\n"
# known finding, probed by a fixed input: a root/map type referring to a type of a packet directory makes the
# generated client package load before eolib.protocol.net, which then star-imports it half-initialised
DIRECTED = [{
    "name": "reference-from-map-into-packet-directory",
    "tree": {
        "protocol.xml": _EMPTY, "pub/protocol.xml": _EMPTY, "pub/server/protocol.xml": _EMPTY,
        "net/server/protocol.xml": _EMPTY,
        "map/protocol.xml": _HDR + """<protocol>
    <struct name="MapThing">
        <field name="c" type="ByteCoords"/>
    </struct>
</protocol>
""",
        "net/client/protocol.xml": _HDR + """<protocol>
    <struct name="ByteCoords">
        <field name="x" type="byte"/>
    </struct>
    <packet family="Init" action="Init">
        <field name="x" type="char"/>
    </packet>
</protocol>
""",
        "net/protocol.xml": _HDR + """<protocol>
    <enum name="PacketFamily" type="byte">
        <value name="Init">255</value>
    </enum>
    <enum name="PacketAction" type="byte">
        <value name="Init">255</value>
    </enum>
</protocol>
""",
    },
}]


def generate(streams, tier):
    rng = streams.get("spec")
    tree = specgen.gen_tree(rng, "small" if rng.random() < 0.5 else "full")
    prng = streams.get("plan")
    plan = {"tree": tree, "tier": tier, "order_seed": prng.randrange(1 << 30),
            "sequences": 6 if tier == "quick" else 20}
    if prng.random() < 0.1:
        # a protocol type that happens to be called like the one helper name the hand-written modules leak into the
        # top-level package (`Optional`, through a star-import of a module that imports it from typing).  A
        # self-contained struct without optional members of its own, in a spec file that declares no optional member at
        # all: valid for the generator as it stands (next to a class with an optional member the module of that class
        # re-exports typing's Optional over it - the degenerate collision described in DESIGN.md, not generated).
        cands = sorted(r for r in tree if "<protocol>" in tree[r] and 'optional="true"' not in tree[r])
        rel = prng.choice(cands) if cands else None
        if rel is not None and 'name="Optional"' not in tree[rel]:
            tree[rel] = tree[rel].replace("</protocol>", '    <struct name="Optional">\n        <field name="weight" type="char"/>\n'
                                                         '    </struct>\n</protocol>', 1)
            plan["helper_named_type"] = rel
    return plan


# The public classes, functions and constants of the hand-written modules as documented for the pinned version
# (docs/ and the modules' own __all__ at that commit).  A module that stops listing one of them in its __all__ has
# not made it private: it is still documented, and it must still resolve from the top-level package and its home
# subpackage.  Names added later are picked up from the source as before.
DOCUMENTED_API = {
    "eolib.data.eo_numeric_limits": ["CHAR_MAX", "SHORT_MAX", "THREE_MAX", "INT_MAX"],
    "eolib.data.eo_reader": ["EoReader"],
    "eolib.data.eo_writer": ["EoWriter"],
    "eolib.data.number_encoding_utils": ["encode_number", "decode_number"],
    "eolib.data.string_encoding_utils": ["encode_string", "decode_string"],
    "eolib.encrypt.encryption_utils": ["interleave", "deinterleave", "flip_msb", "swap_multiples"],
    "eolib.encrypt.server_verification_utils": ["server_verification_hash"],
    "eolib.packet.packet_sequencer": ["PacketSequencer"],
    "eolib.packet.sequence_start": ["SequenceStart", "AccountReplySequenceStart", "InitSequenceStart", "PingSequenceStart"],
    "eolib.protocol.net.packet": ["Packet"],
    "eolib.protocol.protocol_enum_meta": ["ProtocolEnumMeta"],
    "eolib.protocol.serialization_error": ["SerializationError"],
}


def static_modules(src_eolib):
    """(module name, file path) of every documented static module."""
    out = []
    for root, dirs, files in os.walk(src_eolib):
        dirs[:] = sorted(d for d in dirs if d not in ("_generated", "__pycache__"))
        rel = os.path.relpath(root, os.path.dirname(src_eolib)).replace(os.sep, ".")
        for fn in sorted(files):
            if not fn.endswith(".py"):
                continue
            if fn == "__init__.py":
                out.append((rel, os.path.join(root, fn)))
            elif not fn.startswith("_"):
                out.append((rel + "." + fn[:-3], os.path.join(root, fn)))
    return sorted(out)


def public_names(path):
    tree = ast.parse(open(path, encoding="utf-8").read())
    names, all_ = [], None
    for node in tree.body:
        if isinstance(node, (ast.ClassDef, ast.FunctionDef, ast.AsyncFunctionDef)):
            names.append(node.name)
        elif isinstance(node, ast.Assign):
            for t in node.targets:
                if isinstance(t, ast.Name):
                    if t.id == "__all__":
                        try:
                            all_ = [ast.literal_eval(e) for e in node.value.elts]
                        except Exception:
                            pass
                    else:
                        names.append(t.id)
        elif isinstance(node, ast.AnnAssign) and isinstance(node.target, ast.Name) and node.value is not None:
            names.append(node.target.id)
    names = [n for n in names if not n.startswith("_")]
    if all_ is not None:
        names = [n for n in names if n in all_]
    return names


def execute(plan, env):
    res = Result()
    res.evaluations = 0
    tr = Trace(keep=env.keep_trace)
    if plan.get("explore") and "directed" not in plan and plan.get("seed_index") == 0:
        for d in DIRECTED:
            sub = execute({"tree": d["tree"], "tier": plan.get("tier"), "order_seed": 1, "sequences": 1,
                           "directed": d["name"]}, env)
            res.evaluations += sub.evaluations
            res.known.extend(sub.known)
            if sub.violation:
                sub.violation["replan"] = {"tree": d["tree"], "tier": plan.get("tier"), "order_seed": 1, "sequences": 1,
                                           "directed": d["name"], "sequence": sub.violation["sequence"]}
                res.violation = sub.violation
                res.digest = tr.digest()
                return res
    ws = env.ws
    try:
        ws.generate(plan["tree"])
        env._skeleton_loaded = False
    except BaseException as e:  # noqa
        res.count("probe.tree_rejected")
        res.evaluations = 1
        res.digest = tr.digest()
        return res
    spec = Spec(plan["tree"])
    statics = static_modules(ws.src_eolib)
    documented = [m for m, _ in statics]
    names = []
    for mod, path in statics:
        if path.endswith("__init__.py"):
            continue
        home = mod.rpartition(".")[0]
        for n in sorted(set(public_names(path)) | set(DOCUMENTED_API.get(mod, []))):
            names.append([mod, home, n])
    gen_modules = []
    gen_packages = set()
    for name, ed in spec.enums.items():
        gen_modules.append((name, ed.path))
    for cd in spec.classes.values():
        if cd.kind != "case":
            gen_modules.append((cd.name, cd.path))
    generated = []
    for tname, path in sorted(gen_modules):
        dotted = "." + path.replace("/", ".") if path else ""
        module = "eolib.protocol._generated" + dotted + "." + snake_case(tname)
        generated.append(module)
        gen_packages.add("eolib.protocol._generated" + dotted)
        names.append([module, "eolib.protocol" + dotted, tname])
    gen_packages = sorted(gen_packages | {"eolib.protocol._generated"})
    shape = f"{len(gen_modules)}:{len(plan['tree'])}"
    rng = random.Random(plan["order_seed"])
    all_modules = documented + generated + gen_packages

    def kind_of(m):
        if m == "eolib":
            return "eolib"
        if "._generated" in m:
            return "generated_package" if m in gen_packages else "generated_leaf"
        return "static_package" if any(p.endswith("__init__.py") for mm, p in statics if mm == m) else "static_leaf"

    sequences = [["import eolib"]]
    if "sequence" in plan:
        sequences = [plan["sequence"]]
    else:
        firsts = ["eolib.protocol.net.packet", "eolib.packet", "eolib.protocol.net", rng.choice(generated) if generated else "eolib"]
        for i in range(plan["sequences"]):
            seq = []
            n = rng.randrange(1, 7)
            for j in range(n):
                m = firsts[i] if (j == 0 and i < len(firsts)) else rng.choice(all_modules)
                form = rng.choice(["import", "import_as", "from", "star"])
                if form == "import" or "." not in m:
                    seq.append(f"import {m}")
                elif form == "import_as":
                    seq.append(f"import {m} as _x{j}")
                elif form == "from":
                    seq.append(f"from {m.rpartition('.')[0]} import {m.rpartition('.')[2]}")
                else:
                    seq.append(f"from {m} import *")
            seq.append("import eolib")
            sequences.append(seq)
    for seq in sequences:
        first = seq[0].split()[1]
        k = kind_of(first) if first in all_modules else "other"
        form = "star" if seq[0].endswith("*") else ("import_as" if " as " in seq[0] else seq[0].split()[0])
        if seq != ["import eolib"]:
            res.keys.add(f"{shape}|{k}|{form}")
            res.count("fault.first_import_order")
        if k == "generated_leaf":
            res.count("probe.first_import_generated_leaf")
        if k == "generated_package":
            res.count("probe.first_import_generated_package")
        if k == "static_leaf":
            res.count("probe.first_import_static_leaf")
        if first == "eolib.protocol.net.packet":
            res.count("probe.first_import_net_packet_module")
        if form == "import_as":
            res.count("probe.import_as_form")
        if form == "star":
            res.count("probe.star_import_form")
        # in every third sequence the program uses the library for a while before anyone looks at the namespace
        exercise = (len(sequences) + sequences.index(seq) + plan["order_seed"]) % 3 == 0
        if exercise:
            res.count("probe.library_used_before_namespace_walk")
        walk = (len(sequences) + sequences.index(seq) + plan["order_seed"]) % 4 == 1
        if walk:
            res.count("probe.package_tree_walked_and_imported")
        job = {"sys_path": [ws.src], "steps": [{"op": "namespace", "imports": seq, "modules": documented, "names": names,
                                                "exercise": exercise, "gen_packages": gen_packages, "walk": walk}]}
        envv = dict(os.environ, PYTHONHASHSEED="0", PYTHONDONTWRITEBYTECODE="1")
        envv.pop("PYTHONPATH", None)
        p = subprocess.run([sys.executable, CHILD], input=json.dumps(job), capture_output=True, text=True, env=envv, timeout=600)
        if p.returncode != 0 or not p.stdout.strip():
            raise RuntimeError(f"child interpreter failed (exit {p.returncode}): {p.stderr[-800:]}")
        r = json.loads(p.stdout)[0]
        res.evaluations += 1
        problems = [pr for pr in r.get("problems", [])]
        import_errors = r.get("import_errors", [])
        tr.ev(seq, len(problems), len(import_errors))
        if r.get("status") == "child-error":
            raise RuntimeError("child: " + r.get("error", ""))
        viol = None
        for stmt, err in import_errors:
            target = stmt.split()[1]
            # importing a documented or generated module must work in any order
            viol = ("import-statement-failed", kind_of(target) if target in all_modules else "other",
                    f"after {seq[:seq.index(stmt)]}: {stmt!r} raised {err}")
            break
        if viol is None and problems:
            kind, what, detail = problems[0]
            generic = what
            if kind in ("module-path", "module-path-missing", "module-import", "import-form", "import-form-identity", "module-loaded-twice", "package-walk"):
                generic = what if "._generated" not in what else "generated"
                viol = (kind, generic, f"after imports {seq}: {what}: {detail} ({len(problems)} problems in total, e.g. "
                        f"{[p[1] for p in problems[:6]]})")
            else:
                static = not any(what.endswith("." + g[0]) for g in gen_modules)
                viol = (kind, "static-name" if static else "generated-class",
                        f"after imports {seq}: {what} {detail} ({len(problems)} problems in total)")
        if viol:
            sig = f"C20|{viol[0]}|{viol[1]}"
            if plan.get("directed"):
                sig = f"C20|{plan['directed']}|{viol[0]}"
            v = {"kind": viol[0], "signature": sig, "detail": viol[2], "step": tr.steps, "sequence": seq}
            if sig in env.known:
                if not any(kf["signature"] == sig for kf in res.known):
                    res.known.append({"signature": sig, "detail": viol[2]})
                continue
            res.violation = v
            break
    if res.evaluations == 0:
        res.evaluations = 1
    res.digest = tr.digest()
    res.steps = tr.steps
    res.sample = {"documented_modules": len(documented), "public_names": len(names), "generated_modules": len(generated),
                  "example_sequence": sequences[-1]}
    return res


def shrink(plan, still_fails, budget):
    from .. import core
    res = core.probe(plan)
    if res.violation is None:
        return plan
    best = dict(plan, sequence=res.violation["sequence"])
    if not still_fails(best):
        return plan
    from ..core import ddmin

    def test(seq):
        return bool(seq) and still_fails(dict(best, sequence=list(seq) + ([] if seq and seq[-1] == "import eolib" else ["import eolib"])))

    seq = ddmin(best["sequence"], test, budget)
    if not seq or seq[-1] != "import eolib":
        seq = list(seq) + ["import eolib"]
    cand = dict(best, sequence=seq)
    if still_fails(cand):
        best = cand
    # smaller tree: try the skeleton
    from ..workspace import skeleton_tree
    if not best.get("directed"):
        cand = dict(best, tree=skeleton_tree())
        budget[0] -= 1
        if still_fails(cand):
            best = cand
    return best


LEVEL_TEXT = (
    "Seeded search over first-import orders: per generated tree, fresh child interpreters run seeded sequences of "
    "import statements (every statement form, static and generated modules) ending with import eolib; afterwards "
    "every documented module must be reachable by attribute access along its dotted path and be the object in "
    "sys.modules, every statement form must work for it, and every public name of every documented module and every "
    "generated class must be the same object via eolib, its home subpackage and its defining module. Sampling of "
    "trees and orders, not proof."
)
LEVEL_NOTE = (
    "Trusted: the AST-based notion of a module's public names; the generator's module naming is re-derived with the "
    "documented snake-case rule. Type names colliding with static package/module names are excluded as degenerate."
)
TECHNIQUE = "deterministic simulation of import orders in fresh child interpreters with namespace identity invariants"
