"""C14 - Protocol enums accept every integer and keep its value.

Actors are enum classes (process-global mutable registries): hand-written IntEnum /
ProtocolEnumMeta classes of several shapes and every enum of a generated spec tree.  A seeded
history of constructions E(n) - declared ordinals, neighbours, boundaries, huge and negative
integers, repeated unknowns, previously returned instances passed back in - is checked step
by step against the statement and against a snapshot of the class registries.
"""

import importlib
import random

from ..core import Result, Trace
from ..gen import specgen
from ..models.spec_model import Spec
from ..treeenv import get_tree_env, TreeRejected

ID = "C14"
LEVEL = "exploration"
SELFTEST_N = 200
BATCH = 4
DOUBLE_EVERY = 37
BUDGET = {"quick": 25.0, "thorough": 600.0}
RULE = (
    "one evaluation = one construction E(n) in a seeded history of 1-200 constructions over the enum classes of "
    "one process (3 hand-written shapes + every enum of a generated tree); distinct = distinct (enum shape "
    "{underlying type, dense/sparse, has None_}, value class {declared, neighbour, zero, boundary, huge, negative, "
    "instance}, seen before?) triples; non-trivial = every construction"
)
ASSUMPTIONS = [
    "inputs are Python ints (or enum instances previously returned); other argument types are outside the property",
    "hand-written classes are created with a class statement using IntEnum + ProtocolEnumMeta exactly as generated code does",
]
COMPONENTS = {
    "real": ["eolib.protocol.protocol_enum_meta.ProtocolEnumMeta", "generated enum modules (real generator run per tree)", "enum.IntEnum of the interpreter"],
    "stub_or_harness": ["construction-history generator", "registry snapshot oracle"],
}
PROBES = ["optional_enum_field_in_flow", "memberless_base_called_first", "two_constructing_threads_interleaved", "bool_or_int_subclass_argument", "declared_negative_ordinal", "keyword_call_form", "exhaustive_switch_carrier", "warnings_as_errors", "in_flow_read_then_write", "declared", "unknown", "unknown_repeated", "instance_passed_back", "negative", "huge", "none_member",
          "boundary_252_253", "unknown_then_declared_same_class"]
FAULT_KINDS = ["preemption_between_lines", "unknown_ordinal"]
SHRINK_KEYS = ["ops"]

HANDWRITTEN = [
    ("HwDense", [("FOO", 0), ("BAR", 1), ("BAZ", 2)]),
    ("HwSparse", [("None_", 0), ("Low", 7), ("Edge", 252), ("Over", 253), ("Big", 64008), ("Huge", 16194276)]),
    ("HwSingle", [("Only", 5)]),
]
HOOKED_SOURCE = '''
class HwMissingHook(IntEnum, metaclass=ProtocolEnumMeta):
    """a user-defined _missing_ (the case-insensitive name lookup recipe): returns None for integers"""
    North = 0
    South = 1

    @classmethod
    def _missing_(cls, value):
        if isinstance(value, str):
            for member in cls:
                if member.name.lower() == value.lower():
                    return member
        return None


_LABELS = {0: "wave", 1: "bow", 7: "dance"}


class HwInitHook(IntEnum, metaclass=ProtocolEnumMeta):
    """a user-defined __init__ that only works for declared members"""
    Wave = 0
    Bow = 1
    Dance = 7

    def __init__(self, ordinal):
        self.label = _LABELS[ordinal]


class HwTupleMembers(IntEnum, metaclass=ProtocolEnumMeta):
    """members declared as (ordinal, label) pairs through __new__"""
    def __new__(cls, ordinal, label):
        obj = int.__new__(cls, ordinal)
        obj._value_ = ordinal
        obj.label = label
        return obj

    Sword = (3, "sword")
    Shield = (4, "shield")


class HwBase(IntEnum, metaclass=ProtocolEnumMeta):
    def describe(self):
        return f"{self.name}={int(self)}"


class HwDerived(HwBase):
    One = 1
    Two = 2


class HwHolder:
    class HwNested(IntEnum, metaclass=ProtocolEnumMeta):
        """declared inside a class: __qualname__ differs from __name__"""
        Inner = 0
        Outer = 2


def _make_local():
    class HwLocal(IntEnum, metaclass=ProtocolEnumMeta):
        """declared inside a function"""
        Here = 1
        There = 3
    return HwLocal


HwNested = HwHolder.HwNested
HwLocal = _make_local()
# the functional API of a member-less base (what the metaclass' `names` branch is for)
HwFunctional = HwBase("HwFunctional", {"Red": 1, "Green": 2, "Blue": 9})
HwFunctionalPairs = HwBase("HwFunctionalPairs", [("Up", 0), ("Down", 253)])
HwFunctionalNames = HwBase("HwFunctionalNames", "Alpha Beta Gamma", start=5)
HwFunctionalZero = HwBase("HwFunctionalZero", ["Nil", "One", "Two"], start=0)
'''
HOOKED = [
    ("HwMissingHook", [(0, "North"), (1, "South")], "hw/missing-hook"),
    ("HwInitHook", [(0, "Wave"), (1, "Bow"), (7, "Dance")], "hw/init-hook"),
    ("HwTupleMembers", [(3, "Sword"), (4, "Shield")], "hw/tuple-members"),
    ("HwDerived", [(1, "One"), (2, "Two")], "hw/derived"),
    ("HwNested", [(0, "Inner"), (2, "Outer")], "hw/nested-in-class"),
    ("HwLocal", [(1, "Here"), (3, "There")], "hw/local-to-function"),
    ("HwFunctional", [(1, "Red"), (2, "Green"), (9, "Blue")], "hw/functional-api"),
    ("HwFunctionalPairs", [(0, "Up"), (253, "Down")], "hw/functional-api"),
    ("HwFunctionalNames", [(5, "Alpha"), (6, "Beta"), (7, "Gamma")], "hw/functional-api"),
    ("HwFunctionalZero", [(0, "Nil"), (1, "One"), (2, "Two")], "hw/functional-api"),
]
SPECIAL = [0, 1, 2, 3, 251, 252, 253, 254, 255, 256, 64007, 64008, 64009, 64010, 16194276, 16194277, 253 ** 4 - 1,
           253 ** 4, 2 ** 31, 2 ** 63, 2 ** 64 + 1, -1, -2, -253]


def generate(streams, tier):
    rng = streams.get("spec")
    tree = add_carriers(specgen.gen_tree(rng, "small"))
    prng = streams.get("plan")
    if prng.random() < 0.5:
        tree = add_odd_ordinals(tree, prng)
    ops = []
    for _ in range(prng.randrange(1, 201)):
        r = prng.random()
        if r < 0.35:
            ops.append([prng.randrange(64), "declared", prng.randrange(64)])
        elif r < 0.5:
            ops.append([prng.randrange(64), "neighbour", prng.randrange(64), prng.choice([-1, 1, 2])])
        elif r < 0.75:
            ops.append([prng.randrange(64), "value", prng.choice(SPECIAL)])
        elif r < 0.9:
            ops.append([prng.randrange(64), "value", prng.randrange(0, 300)])
        else:
            ops.append([prng.randrange(64), "prev", prng.randrange(64)])
    # in-flow: integers of a "newer protocol version" read and written back by generated code
    for _ in range(prng.randrange(0, 12)):
        ops.insert(prng.randrange(len(ops) + 1),
                   [prng.randrange(64), "carrier", [prng.choice(["d", "d", "n", "s", "r"]) for _ in range(prng.randrange(1, 8))],
                    prng.randrange(1 << 30)])
    plan = {"tree": tree, "ops": ops, "warnings_as_errors": prng.random() < 0.3}
    if prng.random() < 0.05:
        # two caller threads construct enum values at the same time (sim/interleave.py)
        plan["interleave"] = [prng.randrange(1, 9) for _ in range(prng.randrange(4, 80))]
    return plan


def concurrent_constructions(plan, classes, res, tr):
    """The plan's plain constructions, made by two caller threads at the same time under a scheduled interleaving:
    each must get, construction by construction, what a single caller gets."""
    from ..interleave import Interleaver, InterleaveStall
    todo = []
    for op in plan["ops"]:
        cls, declared, _ = classes[op[0] % len(classes)]
        ords = sorted(declared)
        if op[1] == "declared":
            todo.append((cls, ords[op[2] % len(ords)]))
        elif op[1] == "neighbour":
            todo.append((cls, ords[op[2] % len(ords)] + op[3]))
        elif op[1] == "value":
            todo.append((cls, op[2]))
    todo = todo[:120]
    if not todo:
        return None

    def caller():
        seen = []
        for cls, n in todo:
            try:
                x = cls(n)
                seen.append((type(x) is cls, x.name, int(x), x is getattr(cls, x.name, None) if not x.name.startswith("Unrecognized") else None))
            except Exception as e:  # noqa
                seen.append(("raised", type(e).__name__))
        return seen

    alone = caller()
    il = Interleaver(plan["interleave"], lambda filename: "eolib-verif-" in filename)
    try:
        results, errors = il.run(caller, caller)
    except InterleaveStall as e:
        return ("concurrent-constructions", f"two caller threads constructing enum values did not both finish: {e}")
    res.count("probe.two_constructing_threads_interleaved")
    res.count("fault.preemption_between_lines", il.switches)
    tr.ev("interleave", il.switches, tuple(il.lines))
    for i in (0, 1):
        if errors[i] is not None or results[i] != alone:
            k = next((j for j, (a, b) in enumerate(zip(results[i] or [], alone)) if a != b), None)
            what = f"{todo[k][0].__name__}({todo[k][1]}) gave {results[i][k]}, alone {alone[k]}" if k is not None else repr(errors[i])
            return ("concurrent-constructions", f"caller thread {i} constructing enum values while another thread did the same: {what} "
                                                f"(schedule {plan['interleave'][:12]}..., {il.switches} switches)")
    return None


class _Tile(int):
    """An application's int subclass (its text form is not the integer's)."""

    def __str__(self):
        return f"tile#{int(self)}"

    __repr__ = __str__

    def __format__(self, spec):
        return f"tile#{int(self)}"


ODD_SPELLINGS = ["-1", "-2", "-300", "+7", "+0", "0012", "007", "-0", "64009", "253", "-253", "+252"]


def add_odd_ordinals(tree, rng):
    """An enum whose declared ordinals are spelled in the less common decimal notations (sign, leading zeros) or are
    negative; it has no carrier structure (negative ordinals cannot be put on the wire)."""
    picked, seen = [], set()
    for text in rng.sample(ODD_SPELLINGS, rng.randrange(2, 7)):
        if int(text) not in seen:
            seen.add(int(text))
            picked.append(text)
    rel = rng.choice(sorted(tree))
    body = "".join(f'        <value name="Odd{i}">{t}</value>\n' for i, t in enumerate(picked))
    enum = f'    <enum name="OddOrdinals" type="{rng.choice(["char", "short", "three"])}">\n{body}    </enum>\n'
    out = dict(tree)
    out[rel] = tree[rel].replace("</protocol>", enum + "</protocol>")
    return out


def add_carriers(tree):
    """For every enum of the tree add a struct, next to it, that carries it as a field and as arrays."""
    import re
    out = dict(tree)
    for rel in sorted(tree):
        names = re.findall(r'<enum name="([A-Za-z0-9]+)"', tree[rel])
        extra = []
        for i, name in enumerate(names):
            if name in ("PacketFamily", "PacketAction") and False:
                continue
            body = re.search(r'<enum name="%s"[^>]*>(.*?)</enum>' % name, tree[rel], re.S).group(1)
            value_names = re.findall(r'<value name="([A-Za-z0-9_]+)"', body)
            if not value_names:
                continue        # a placeholder enum: nothing can carry it
            first = value_names[0]
            # ... and one that carries it as a trailing optional field
            extra.append(f'    <struct name="{name}Maybe">\n        <field name="lead" type="char"/>\n'
                         f'        <field name="opt" type="{name}" optional="true"/>\n    </struct>')
            if 2 <= len(value_names) <= 5:
                # a switch with a case for EVERY declared value and no default; only the last case carries data
                cases = "".join(f'            <case value="{v}"/>\n' for v in value_names[:-1])
                cases += (f'            <case value="{value_names[-1]}">\n                <field name="detail" type="char"/>\n'
                          f'            </case>\n')
                extra.append(f'    <struct name="{name}Carrier">\n        <field name="single" type="{name}"/>\n'
                             f'        <switch field="single">\n{cases}        </switch>\n'
                             f'        <array name="few" type="{name}" length="2"/>\n        <array name="rest" type="{name}"/>\n    </struct>')
                continue
            extra.append(f'    <struct name="{name}Carrier">\n        <field name="single" type="{name}"/>\n'
                         f'        <switch field="single">\n            <case value="{first}">\n'
                         f'                <field name="detail" type="char"/>\n            </case>\n        </switch>\n'
                         f'        <array name="few" type="{name}" length="2"/>\n        <array name="rest" type="{name}"/>\n    </struct>')
        if extra:
            out[rel] = tree[rel].replace("</protocol>", "\n".join(extra) + "\n</protocol>")
    return out


def _value_class(n, declared):
    if n in declared:
        return "declared"
    if n < 0:
        return "negative"
    if n >= 253 ** 4:
        return "huge"
    if n in (252, 253, 64008, 64009, 16194276, 16194277):
        return "boundary"
    if n == 0:
        return "zero"
    if any(abs(n - d) <= 2 for d in declared):
        return "neighbour"
    return "other"


def execute(plan, env):
    import warnings
    with warnings.catch_warnings():
        if plan.get("warnings_as_errors"):
            # a deployment that runs with -W error: a warning on this path is a failure of the construction
            warnings.simplefilter("error")
            warnings.simplefilter("default", DeprecationWarning)
            warnings.simplefilter("default", PendingDeprecationWarning)
        res = _execute(plan, env)
        if plan.get("warnings_as_errors"):
            res.count("probe.warnings_as_errors")
        return res


def _execute(plan, env):
    res = Result()
    res.evaluations = 0
    tr = Trace(keep=env.keep_trace)
    try:
        te = get_tree_env(env, plan["tree"])
    except TreeRejected as e:
        res.evaluations = 1
        res.count("probe.tree_rejected")
        res.digest = tr.digest()
        return res
    meta = importlib.import_module("eolib.protocol.protocol_enum_meta").ProtocolEnumMeta
    from enum import IntEnum
    classes = []       # (class, declared {ordinal: member name}, shape)
    ns = {"IntEnum": IntEnum, "ProtocolEnumMeta": meta}
    for name, members in HANDWRITTEN:
        src = f"class {name}(IntEnum, metaclass=ProtocolEnumMeta):\n" + "".join(f"    {m} = {o}\n" for m, o in members)
        exec(src, ns)
        classes.append((ns[name], {o: m for m, o in members}, f"hw/{'sparse' if name == 'HwSparse' else 'dense'}/{int(any(m == 'None_' for m, _ in members))}"))
    # hand-written enums that use the hooks the enum module documents for user classes
    exec(HOOKED_SOURCE, ns)
    if plan.get("ops") and plan["ops"][0][0] % 2:
        # somebody asks the member-less base class first (whatever that gives or raises), before any enum derived from it is used
        for n in (0, 1, 2, 7):
            try:
                ns["HwBase"](n)
            except Exception:  # noqa
                pass
        res.count("probe.memberless_base_called_first")
    for name, members, shape in HOOKED:
        classes.append((ns[name], dict(members), shape))
    for ename in sorted(te.spec.enums):
        ed = te.spec.enums[ename]
        if not ed.values:
            # a placeholder enum without values: Python's Enum refuses to construct anything from a member-less class
            # before the metaclass' fallback is reached; only that it generates and imports is checked (C18)
            res.count("probe.memberless_generated_enum_skipped")
            continue
        cls = te.bridge.cls(ename)
        ords = sorted(ed.ordinals)
        dense = ords == list(range(ords[0], ords[0] + len(ords)))
        classes.append((cls, {o: ed.python_name(n) for n, o in ed.values},
                        f"{ed.underlying}/{'dense' if dense else 'sparse'}/{int('None' in ed.by_name)}"))

    def snapshot(cls):
        return (tuple((m.name, int(m)) for m in cls), len(cls), tuple((k, int(v)) for k, v in cls.__members__.items()),
                tuple(sorted(int(k) for k in cls._value2member_map_)))

    snaps = [snapshot(c) for c, _, _ in classes]
    firsts = [{} for _ in classes]       # ordinal -> member object on first access
    seen_unknown = [set() for _ in classes]
    returned = []

    def fail(kind, detail, step):
        res.violation = {"kind": kind, "signature": f"C14|{kind}", "detail": detail, "step": step}

    for step, op in enumerate(plan["ops"]):
        ci = op[0] % len(classes)
        cls, declared, shape = classes[ci]
        ords = sorted(declared)
        arg = None
        if op[1] == "carrier":
            v = run_carrier(te, cls, declared, op, res, tr, step)
            if v:
                fail(v[0], v[1], step)
                break
            continue
        if op[1] == "declared":
            n = ords[op[2] % len(ords)]
        elif op[1] == "neighbour":
            n = ords[op[2] % len(ords)] + op[3]
        elif op[1] == "value":
            n = op[2]
        else:
            if not returned:
                continue
            arg = returned[op[2] % len(returned)]
            n = int(arg)
            res.count("probe.instance_passed_back")
        res.evaluations += 1
        vc = "instance" if arg is not None else _value_class(n, declared)
        res.keys.add(f"{shape}|{vc}|{int(n in seen_unknown[ci] or n in firsts[ci])}")
        given = arg if arg is not None else n
        if arg is None and step % 11 == 5:
            # the same integer in another dress: a bool, or an int subclass with a text form of its own
            given = bool(n) if n in (0, 1) else _Tile(n)
            res.count("probe.bool_or_int_subclass_argument")
        try:
            if step % 7 == 3:
                x = cls(value=given)      # the same construction, argument passed by keyword
                res.count("probe.keyword_call_form")
            else:
                x = cls(given)
        except BaseException as e:  # noqa
            fail("construction-raised", f"{cls.__name__}({n}) raised {type(e).__name__}: {e}", step)
            break
        tr.ev(step, cls.__name__, n, getattr(x, "name", None))
        if n < 0:
            res.count("probe.negative")
        if n >= 253 ** 4:
            res.count("probe.huge")
        if n in (252, 253):
            res.count("probe.boundary_252_253")
        if n in declared:
            res.count("probe.declared")
            if n < 0:
                res.count("probe.declared_negative_ordinal")
            if declared[n] == "None_":
                res.count("probe.none_member")
            if seen_unknown[ci]:
                res.count("probe.unknown_then_declared_same_class")
            member = getattr(cls, declared[n], None)
            if x is not member:
                fail("declared-not-member", f"{cls.__name__}({n}) is not the declared member {declared[n]} (got {x!r})", step)
                break
            if firsts[ci].setdefault(n, x) is not x:
                fail("declared-identity-changed", f"{cls.__name__}({n}) returned a different object than the first time", step)
                break
            if x.name != declared[n] or x.value != n:
                fail("declared-name-value", f"{cls.__name__}({n}): name {x.name!r} value {x.value!r}", step)
                break
        else:
            res.count("probe.unknown")
            res.count("fault.unknown_ordinal")
            if n in seen_unknown[ci]:
                res.count("probe.unknown_repeated")
            seen_unknown[ci].add(n)
            problems = []
            if not isinstance(x, cls):
                problems.append(f"not an instance of the enum (type {type(x).__name__})")
            else:
                try:
                    if not (x == n and n == x):
                        problems.append("does not compare equal to the integer")
                    if hash(x) != hash(n):
                        problems.append("hash differs from the integer's")
                    if x.name != f"Unrecognized({n})":
                        problems.append(f"name is {x.name!r}")
                    if not (x.value == n):
                        problems.append(f"value is {x.value!r}")
                    if int(x) != n or type(int(x)) is not int:
                        problems.append(f"int() gives {int(x)!r}")
                    if x + 0 != n:
                        problems.append("arithmetic value differs")
                except BaseException as e:  # noqa
                    problems.append(f"inspecting the instance raised {type(e).__name__}: {e}")
            if problems:
                fail("unknown-instance", f"{cls.__name__}({n}): " + "; ".join(problems), step)
                break
        returned.append(x)
        if len(returned) > 64:
            returned.pop(0)
        for cj, (c, _, _) in enumerate(classes):
            if snapshot(c) != snaps[cj]:
                fail("registry-changed", f"after {cls.__name__}({n}) the declared members/registries of "
                     f"{c.__name__} changed: {snapshot(c)} vs {snaps[cj]}", step)
                break
        if res.violation:
            break
    if plan.get("interleave") and res.violation is None:
        v = concurrent_constructions(plan, classes, res, tr)
        if v:
            fail(v[0], v[1], len(plan["ops"]))
    if res.evaluations == 0:
        res.evaluations = 1
    res.digest = tr.digest()
    res.steps = tr.steps
    res.sample = {"enums": [c.__name__ for c, _, _ in classes][:8], "first_ops": [str(o) for o in plan["ops"][:8]],
                  "n_ops": len(plan["ops"])}
    return res


def run_carrier(te, cls, declared, op, res, tr, step):
    """Integers -> wire -> generated deserializer -> enum values -> generated serializer -> wire."""
    import random as _random
    ename = cls.__name__
    if ename not in te.spec.enums or (ename + "Carrier") not in te.spec.classes:
        return None
    ed = te.spec.enums[ename]
    from ..models.codec_model import LIMITS, SIZES
    lim = LIMITS[ed.underlying]
    rng = _random.Random(op[3])
    ords = sorted(o for o in declared if o < lim)
    values = []
    for k in op[2]:
        if k == "d" and ords:
            values.append(rng.choice(ords))
        elif k == "n" and ords:
            values.append(min(lim - 1, max(0, rng.choice(ords) + rng.choice([-1, 1]))))
        elif k == "s":
            values.append(rng.choice([v for v in (0, 1, 252, 253, 254, 255, 64008, lim - 1) if v < lim]))
        else:
            values.append(rng.randrange(0, min(lim, 400)))
    while len(values) < 3:
        values.append(values[-1])
    w = te.EoWriter()
    add = getattr(w, "add_" + ed.underlying)
    # which declared value carries case data in the carrier's switch (see add_carriers)
    data_ordinal = ed.values[-1][1] if 2 <= len(ed.values) <= 5 else ed.values[0][1]
    if 2 <= len(ed.values) <= 5:
        res.count("probe.exhaustive_switch_carrier")
    for i, v in enumerate(values):
        add(v)
        if i == 0 and v == data_ordinal:
            w.add_char(7)           # the case data of the switch on `single`
    data = bytes(w.to_bytearray())
    carrier = te.bridge.cls(ename + "Carrier")
    res.evaluations += 1
    res.count("probe.in_flow_read_then_write")
    try:
        obj = carrier.deserialize(te.EoReader(data))
        got = [obj.single] + list(obj.few) + list(obj.rest)
    except BaseException as e:  # noqa
        return ("in-flow-raised", f"{ename}Carrier.deserialize({data.hex()}) raised {type(e).__name__}: {e}")
    tr.ev(step, "carrier", ename, tuple(values), tuple(int(x) for x in got))
    if len(got) != len(values):
        return ("in-flow-value", f"{ename}Carrier read {len(got)} values from {len(values)} written ({values})")
    for v, x in zip(values, got):
        if not isinstance(x, cls) or int(x) != v:
            return ("in-flow-value", f"{ename}Carrier: integer {v} came back as {x!r} (values {values})")
        if v in declared and x is not getattr(cls, declared[v], None):
            return ("in-flow-value", f"{ename}Carrier: declared ordinal {v} came back as {x!r}, not member {declared[v]}")
        if v not in declared and x.name != f"Unrecognized({v})":
            return ("in-flow-value", f"{ename}Carrier: undeclared integer {v} came back named {x.name!r}")
    w2 = te.EoWriter()
    try:
        carrier.serialize(w2, obj)
    except BaseException as e:  # noqa
        return ("in-flow-raised", f"{ename}Carrier.serialize raised {type(e).__name__}: {e} for values {values}")
    if bytes(w2.to_bytearray()) != data:
        return ("in-flow-rewrite", f"{ename}Carrier: read-then-write changed the bytes {data.hex()} -> {bytes(w2.to_bytearray()).hex()} (values {values})")
    if (ename + "Maybe") in te.spec.classes:
        maybe = te.bridge.cls(ename + "Maybe")
        res.count("probe.optional_enum_field_in_flow")
        for v in values[:2]:
            w = te.EoWriter()
            w.add_char(9)
            getattr(w, "add_" + ed.underlying)(v)
            data = bytes(w.to_bytearray())
            try:
                obj = maybe.deserialize(te.EoReader(data))
                x = obj.opt
                w2 = te.EoWriter()
                maybe.serialize(w2, obj)
            except BaseException as e:  # noqa
                return ("in-flow-raised", f"{ename}Maybe: {data.hex()} read and written back raised {type(e).__name__}: {e}")
            if not isinstance(x, cls) or int(x) != v or (v not in declared and x.name != f"Unrecognized({v})"):
                return ("in-flow-value", f"{ename}Maybe: integer {v} in the optional field came back as {x!r}")
            if bytes(w2.to_bytearray()) != data:
                return ("in-flow-rewrite", f"{ename}Maybe: read-then-write changed the bytes {data.hex()} -> {bytes(w2.to_bytearray()).hex()}")
    return None


def shrink(plan, still_fails, budget):
    from ..core import ddmin

    def test(ops):
        return still_fails(dict(plan, ops=ops))

    plan = dict(plan, ops=ddmin(plan["ops"], test, budget))
    return plan


def post_check(agg):
    rejected = agg["counters"].get("probe.tree_rejected", 0) + agg["counters"].get("tree_rejected", 0)
    if agg["plans"] and rejected * 2 > agg["plans"]:
        return [f"{rejected} of {agg['plans']} spec trees were rejected by the generator or failed to import: "
                "nothing was explored (C18 decides whether the generator is at fault)"]
    return []


LEVEL_TEXT = (
    "Seeded exploration of construction histories over process-global enum classes (hand-written and generated by "
    "the real generator, all underlying types, None_ members): after every construction the result must satisfy the "
    "statement (declared -> the one member object; otherwise an instance equal/hash-equal to the integer named "
    "Unrecognized(n)) and the registries of every class in the process must equal their snapshot. Sampling, not "
    "proof; no fault or nondeterminism is involved beyond the order of constructions."
)
LEVEL_NOTE = "Trusted: the interpreter's enum module. Inputs are ints and previously returned instances only."
TECHNIQUE = "deterministic seeded history simulation over process-global enum registries with snapshot invariants; two caller threads under a seeded line-level scheduler"
