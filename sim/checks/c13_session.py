"""C13 - Packet sequencer yields start + (n mod 10) under any update history.

Simulated system: a client node and a server node, each owning a real PacketSequencer, talk
over a discrete-event FIFO network with seeded latencies and virtual time.  Sequence-start
updates (INIT, PING, ACCOUNT_REPLY, arbitrary values) are produced by the real generators
(random source owned by the simulator), travel through the real writer/reader, and are
applied by both peers at the same point of the client's packet stream (the client stamps its
packets with the number of updates it has applied; the server catches up before checking).
"""

import importlib
import random

from ..core import Result, Trace
from ..seams import SimNet, SimRandom, owned_random

ID = "C13"
LEVEL = "exploration"
BATCH = 100
BUDGET = {"quick": 25.0, "thorough": 600.0}
SIM_TIME_UNIT = "virtual milliseconds on the simulated network (the only clock any node reads)"
RULE = (
    "one evaluation = one simulated client/server session (up to ~400 events: connects, packet bursts of 0-35, "
    "pings at seeded virtual times, account replies, arbitrary start injections, reconnects) under seeded "
    "per-message latencies; distinct = distinct (counter value at update, update kind, packets in flight at the "
    "update {0,1,2+}) triples plus (wrap-arounds crossed between updates {0,1,2,3+}); non-trivial = the session "
    "contains at least one update after traffic started"
)
ASSUMPTIONS = [
    "FIFO byte-stream transport between the two peers (as TCP gives the real game)",
    "both peers apply a start update at the same point of the client's packet stream (epoch stamp), which is what 'the same history' means in the property",
    "node scripts and network are harness; sequencer, sequence starts, writer, reader, number codec are real",
]
COMPONENTS = {
    "real": ["eolib.packet.PacketSequencer", "eolib.packet.sequence_start.*", "EoWriter/EoReader for every message"],
    "stub_or_harness": ["SimNet (virtual-time FIFO network)", "client/server node scripts", "SimRandom"],
}
PROBES = ["history_continued_on_a_deep_copy", "history_continued_on_a_copy", "sequencer_looked_at", "earlier_start_object_installed_again", "sequencer_subclass_with_own_constructor", "start_constructed_ahead_of_hand_over", "start_object_changed_in_place", "user_start_derived_from_library_class", "update_at_counter_9", "update_at_counter_0", "back_to_back_updates", "update_with_packets_in_flight",
          "three_wraparounds_between_updates", "reconnect", "sequence_sent_as_short", "two_pings_outstanding",
          "request_from_another_thread"]
FAULT_KINDS = ["request_during_request", "update_during_failed_request", "start_in_force_broken_at_update", "latency_jitter", "start_update_mid_burst", "reconnect", "start_unreadable_during_request", "update_during_request"]
SHRINK_KEYS = ["script", "local"]


def generate(streams, tier):
    rng = streams.get("plan")
    script = [["connect"]]
    n = rng.randrange(1, 40)
    p_update = rng.choice([0.1, 0.3, 0.6])
    for _ in range(n):
        r = rng.random()
        if r < 1 - p_update:
            script.append(["send", rng.choice([0, 1, 1, 2, 5, 9, 10, 11, 20, 35])])
        else:
            k = rng.random()
            if k < 0.45:
                script.append(["ping", rng.randrange(0, 200)])      # server-side, after a virtual delay
            elif k < 0.65:
                script.append(["account"])
            elif k < 0.9:
                script.append(["inject", rng.choice(["init", "ping", "account"]),
                               rng.randrange(0, 253), rng.randrange(0, 253)])
            else:
                script.append(["connect"])
        if rng.random() < 0.3:
            script.append(["wait", rng.randrange(0, 300)])
    # a local history on one sequencer, with outages: the start in force raises while it is read
    local = []
    long_history = rng.random() < 0.1
    for _ in range(rng.randrange(100, 400) if long_history else rng.randrange(0, 60)):
        r = rng.random() if not long_history else rng.random() * 0.5 + (0.5 if rng.random() < 0.5 else 0.0)
        if rng.random() < 0.04:
            local.append(["next_with_update_inside", rng.choice([0, 7, 240, 1756, rng.randrange(0, 70000)])])
            continue
        if rng.random() < 0.05:
            # a new start is constructed now (when the server packet arrives) and installed later, or never
            local.append(["prepare", rng.choice([0, 3, 250, 1756, rng.randrange(0, 70000)])])
            continue
        if rng.random() < 0.04:
            local.append(["install_prepared"])
            continue
        if rng.random() < 0.05:
            # the sequencer is looked at the way Python programs look at objects (logging, debugging, assertions)
            local.append(["look", rng.choice(["repr", "str", "format", "dir", "vars", "bool", "eq", "hash", "copy"])])
            continue
        if rng.random() < 0.03:
            # the session object is duplicated (a snapshot, a hand-over to another owner) and the history goes on with the copy
            local.append(["continue_on_copy"])
            continue
        if rng.random() < 0.02:
            # ... duplicated in depth: the copy owns a copy of the start, the original's start is none of its business any more
            local.append(["continue_on_deepcopy"])
            continue
        if rng.random() < 0.03:
            # a request is made from inside the start's own value read (a start that confirms itself through the same
            # connection on first use): two numbers are returned, the inner one first
            local.append(["next_with_next_inside"])
            continue
        if rng.random() < 0.03:
            # a start update arrives while a request is in progress, and then that request fails
            local.append(["failed_next_with_update_inside", rng.choice([0, 7, 240, 1756, rng.randrange(0, 70000)])])
            continue
        if rng.random() < 0.03:
            # the start in force has become unreadable for good; the application repairs the session with a new start
            local.append(["replace_broken", rng.choice([0, 5, 251, 1756, rng.randrange(0, 70000)])])
            continue
        if rng.random() < 0.04:
            # a start object that was in force earlier is handed over again (the very same object)
            local.append(["reinstall_earlier", rng.randrange(0, 8)])
            continue
        if rng.random() < 0.04:
            # the application changes the value of the start object it installed earlier (no new hand-over)
            local.append(["set_in_place", rng.choice([0, 3, 250, 1756, rng.randrange(0, 70000)])])
            continue
        if r < 0.5:
            local.append(["next"])
        elif r < 0.6:
            local.append(["next_in_thread"])    # same sequencer, another caller thread, strictly one after the other
        elif r < 0.85:
            local.append(["set", rng.choice([0, 1, 9, 240, 252, 253, 1756, rng.randrange(0, 70000),
                                             -1, -8, -13, rng.randrange(-300, 0)])])   # from_init_values(0, 5) is -8
        else:
            local.append(["next_during_outage"])
    return {"script": script, "local": local, "net_seed": rng.randrange(1 << 30), "draw_seed": rng.randrange(1 << 30),
            "jitter": rng.choice([0, 5, 50, 400]), "start_base": rng.randrange(35), "sequencer_class": rng.randrange(5)}


class _Session:
    def __init__(self, plan, env, res, tr):
        env.skeleton()
        self.ss = importlib.import_module("eolib.packet.sequence_start")
        self.PacketSequencer = importlib.import_module("eolib.packet.packet_sequencer").PacketSequencer
        self.W = importlib.import_module("eolib.data.eo_writer").EoWriter
        self.R = importlib.import_module("eolib.data.eo_reader").EoReader
        self.res, self.tr = res, tr
        self.net = SimNet(random.Random(plan["net_seed"]), 1, plan["jitter"])
        self.draws = random.Random(plan["draw_seed"])
        self.plan = plan
        # per-peer state ------------------------------------------------------------------
        self.client = None
        self.server = None
        self.c_epoch = 0            # updates applied by the client in this connection
        self.s_epoch = 0
        self.s_pending = []         # updates sent by the server, not yet applied by it
        self.c_blocked = False
        self.c_backlog = []
        self.conn = 0
        # models ----------------------------------------------------------------------------
        self.model = {}             # peer -> [n, start]
        self.in_flight = 0
        self.since_update = 0

    # ---- oracle helpers
    def fail(self, kind, who, detail):
        if self.res.violation is None:
            self.res.violation = {"kind": kind, "signature": f"C13|{kind}|{who}", "detail": detail,
                                  "step": self.tr.steps}

    def new_sequencer(self, who):
        seq = self.PacketSequencer(self.ss.SequenceStart.zero())
        self.model[who] = [0, 0]
        return seq

    def next_seq(self, who, seq):
        n, start = self.model[who]
        got = seq.next_sequence()
        want = start + n % 10
        self.model[who][0] = n + 1
        self.tr.ev(self.net.now, who, "next", got)
        if got != want:
            self.fail("sequence-value", who, f"{who}: request #{n} returned {got}, start in force {start} + ({n} mod 10) = {want}")
        return got

    def set_start(self, who, seq, start_obj, kind):
        n = self.model[who][0]
        seq.set_sequence_start(start_obj)
        self.model[who][1] = start_obj.value
        self.tr.ev(self.net.now, who, "set", start_obj.value)
        if who == "client":
            c = n % 10
            if c == 9: self.res.count("probe.update_at_counter_9")
            if c == 0: self.res.count("probe.update_at_counter_0")
            if self.since_update == 0: self.res.count("probe.back_to_back_updates")
            if self.in_flight: self.res.count("probe.update_with_packets_in_flight")
            if self.since_update >= 30: self.res.count("probe.three_wraparounds_between_updates")
            self.res.keys.add(f"{c}|{kind}|{min(self.in_flight, 2)}|{min(self.since_update // 10, 3)}")
            self.res.count("fault.start_update_mid_burst" if self.in_flight else "fault.latency_jitter", 1)
            self.since_update = 0

    # ---- server -> client updates
    def make_update(self, kind, a=None, b=None):
        """Build a start (generated through the owned random source, or from injected values) and
        put its wire components through the real writer; returns (start object, message bytes)."""
        w = self.W()
        if a is None:
            script = [self.draws.choice([0, 1, 0.5, 0.999999, self.draws.random()]) for _ in range(2)]
            cls = {"init": self.ss.InitSequenceStart, "ping": self.ss.PingSequenceStart,
                   "account": self.ss.AccountReplySequenceStart}[kind]
            with owned_random(self.ss, SimRandom(script)):
                start = cls.generate()
        elif kind == "init":
            if a * 7 + b - 13 < 0:      # keep injected starts non-negative (a start is a counter)
                b = 13 - a * 7
            start = self.ss.InitSequenceStart.from_init_values(a, b)
        elif kind == "ping":
            start = self.ss.PingSequenceStart.from_ping_values(a + b, b)
        else:
            start = self.ss.AccountReplySequenceStart.from_value(a)
        if kind == "init":
            w.add_char(start.seq1); w.add_char(start.seq2)
        elif kind == "ping":
            w.add_short(start.seq1); w.add_char(start.seq2)
        else:
            w.add_char(start.value)
        return start, bytes(w.to_bytearray())

    def server_send_update(self, kind, a=None, b=None):
        if self.server is None:
            return
        start, payload = self.make_update(kind, a, b)
        self.s_pending.append((start, kind))
        if kind == "ping" and sum(1 for _, k in self.s_pending if k == "ping") >= 2:
            self.res.count("probe.two_pings_outstanding")
        conn = self.conn
        self.net.send("s2c", self.client_on_update, (conn, kind, payload))

    def client_on_update(self, msg):
        conn, kind, payload = msg
        if conn != self.conn:
            return
        r = self.R(payload)
        if kind == "init":
            start = self.ss.InitSequenceStart.from_init_values(r.get_char(), r.get_char())
        elif kind == "ping":
            start = self.ss.PingSequenceStart.from_ping_values(r.get_short(), r.get_char())
        else:
            start = self.ss.AccountReplySequenceStart.from_value(r.get_char())
        self.set_start("client", self.client, start, kind)
        self.c_epoch += 1
        if kind == "ping":
            self.client_send_packet("pong")
        if kind in ("account", "init") and self.c_blocked:
            self.c_blocked = False
            backlog, self.c_backlog = self.c_backlog, []
            for item in backlog:
                self.client_action(item)

    # ---- client -> server packets
    def client_send_packet(self, what):
        value = self.next_seq("client", self.client)
        w = self.W()
        w.add_short(self.c_epoch)
        try:
            if value < 253:
                w.add_char(value)
            else:
                w.add_short(value)
                self.res.count("probe.sequence_sent_as_short")
        except ValueError as e:
            self.fail("sequence-not-transmittable", "client", f"sequence value {value} does not fit its field: {e}")
            return
        self.in_flight += 1
        self.since_update += 1
        self.net.send("c2s", self.server_on_packet, (self.conn, what, bytes(w.to_bytearray())))

    def server_on_packet(self, msg):
        conn, what, payload = msg
        if conn != self.conn:
            return
        self.in_flight -= 1
        r = self.R(payload)
        epoch = r.get_short()
        value = r.get_char() if len(payload) == 3 else r.get_short()
        while self.s_epoch < epoch and self.s_pending:
            start, kind = self.s_pending.pop(0)
            self.set_start("server", self.server, start, kind)
            self.s_epoch += 1
        expected = self.next_seq("server", self.server)
        if value != expected:
            self.fail("lockstep", "server", f"client sent sequence {value}, server expected {expected} "
                      f"(client model {self.model['client']}, server model {self.model['server']})")
        if what == "account_request":
            self.server_send_update("account")

    # ---- script interpretation (client side, sequential with virtual waits)
    def client_action(self, item):
        if self.c_blocked and item[0] in ("send", "account"):
            self.c_backlog.append(item)
            return
        if item[0] == "send":
            for _ in range(item[1]):
                self.client_send_packet("data")
        elif item[0] == "account":
            self.c_blocked = True
            self.client_send_packet("account_request")

    def connect(self):
        self.conn += 1
        if self.conn > 1:
            self.res.count("probe.reconnect")
            self.res.count("fault.reconnect")
        self.client = self.new_sequencer("client")
        self.server = self.new_sequencer("server")
        self.c_epoch = self.s_epoch = 0
        self.s_pending = []
        self.c_backlog = []
        self.c_blocked = True       # nothing is sent until INIT arrived
        self.in_flight = 0
        self.since_update = 0
        self.server_send_update("init")

    def run(self):
        t = 0
        for item in self.plan["script"]:
            if item[0] == "wait":
                t += item[1]
            elif item[0] == "connect":
                self.net.after(t, self.connect)
            elif item[0] == "ping":
                self.net.after(t + item[1], self.server_send_update, "ping")
            elif item[0] == "inject":
                self.net.after(t, self.server_send_update, item[1], item[2], item[3])
            else:
                self.net.after(t, self.client_action, item)
            t += 1
        events = self.net.run()
        return events


def run_local(plan, s, res, tr):
    """One sequencer, no network: requests, updates and requests that fail because the start in force cannot
    be read (injected fault).  Only numbers actually returned count towards n."""
    from ..seams import SimFault
    state = {"outage": False, "on_read": None}

    # the application's own start class: derived from the abstract base or from one of the library's classes
    # (then constructed properly, with a different underlying value - the overridden `value` is what counts)
    base_kind = plan.get("start_base", 0) % 5
    base = [s.ss.SequenceStart, getattr(s.ss, "SimpleSequenceStart", s.ss.SequenceStart), s.ss.AccountReplySequenceStart,
            s.ss.InitSequenceStart, s.ss.PingSequenceStart][base_kind]
    if base_kind:
        res.count("probe.user_start_derived_from_library_class")

    class ProbeStart(base):
        def __init__(self, v):
            if base_kind in (1, 2):
                super().__init__(7)
            elif base_kind in (3, 4):
                super().__init__(7, 1, 2)
            self._v = v

        if plan.get("start_base", 0) % 7 == 1:
            def __eq__(self, other):    # compares by value like a dataclass, and is therefore not hashable
                return isinstance(other, type(self)) and other._v == self._v
            __hash__ = None
        elif plan.get("start_base", 0) % 7 == 3:
            def __len__(self):          # an application start that happens to be a sized, empty thing: falsy
                return 0
        elif plan.get("start_base", 0) % 7 == 5:
            def __bool__(self):
                return False

        @property
        def value(self):
            if state["outage"] or self is state.get("broken"):
                # the start cannot be read right now (its backing packet has not arrived, its storage failed, ...)
                kind = state["outage"] or "fault"
                if kind == "attribute":
                    raise AttributeError("'NoneType' object has no attribute 'sequence_start'")
                if kind == "key":
                    raise KeyError("sequence_start")
                raise SimFault("start value unavailable")
            hook, state["on_read"] = state["on_read"], None
            if hook is not None:
                hook()          # something else happens while the request is in progress
            every = state.get("on_every_read")
            if every is not None and not state.get("in_every"):
                state["in_every"] = True
                try:
                    every()     # ... every time the value is read, for as long as the outer request lasts
                finally:
                    state["in_every"] = False
            return self._v

    # the application's own sequencer class: the library's, or derived from it with a constructor of its own
    kind = plan.get("sequencer_class", 0) % 5
    Base = s.PacketSequencer

    class NamedSequencer(Base):
        def __init__(self, name, start):
            super().__init__(start)
            self.name = name

    class DefaultSequencer(Base):
        def __init__(self):
            super().__init__(ProbeStart(0))

    class CountingSequencer(Base):
        def __init__(self, start, *, label="peer"):
            super().__init__(start)
            self.label = label

    class RecordingSequencer(Base):
        """keeps a log of the updates it saw; its own state is set up after the base class'"""

        def __init__(self, start):
            super().__init__(start)
            self.updates = []

        def set_sequence_start(self, start):
            self.updates.append(start)
            super().set_sequence_start(start)

    installed = ProbeStart(0)
    if kind == 4:
        seq = RecordingSequencer(installed)
    elif kind == 1:
        seq = NamedSequencer("client", installed)
    elif kind == 2:
        seq = DefaultSequencer()
        installed = ProbeStart(0)
        seq.set_sequence_start(installed)
    elif kind == 3:
        seq = CountingSequencer(installed, label="x")
    else:
        seq = s.PacketSequencer(start=installed)
    if kind:
        res.count("probe.sequencer_subclass_with_own_constructor")
    prepared = []       # starts constructed ahead of their hand-over (kept alive)
    history_of_starts = [installed]     # every start object that has been in force (kept alive)
    owns_start_object = True            # False after a deep copy: the sequencer then holds a start object of its own
    n, start = 0, 0
    for i, op in enumerate(plan.get("local", [])):
        if installed is not history_of_starts[-1]:
            history_of_starts.append(installed)
        if op[0] == "set":
            installed = ProbeStart(op[1])
            if i % 4 == 1:
                seq.set_sequence_start(start=installed)
            else:
                seq.set_sequence_start(installed)
            start = op[1]
            tr.ev("local", "set", op[1])
            owns_start_object = True
        elif op[0] == "prepare":
            prepared.append(ProbeStart(op[1]))       # constructing a start changes nothing that is in force
            res.count("probe.start_constructed_ahead_of_hand_over")
            tr.ev("local", "prepare", op[1])
        elif op[0] == "continue_on_deepcopy":
            import copy as _copy
            try:
                clone = _copy.deepcopy(seq)
            except Exception:  # noqa  (whether a sequencer can be deep-copied is not the property)
                clone = None
            if clone is not None:
                seq = clone
                orphaned, installed = installed, ProbeStart(start)     # `installed` only stands in for the copy's own start
                owns_start_object = False       # ... which the harness cannot reach: in-place changes are skipped until the next hand-over
                orphaned._v = start + 1000      # the original's start changes: the copy must not notice
                res.count("probe.history_continued_on_a_deep_copy")
            tr.ev("local", "deepcopy", clone is not None)
        elif op[0] == "next_with_next_inside":
            inner = []
            if i % 2:
                state["on_read"] = lambda: inner.append(seq.next_sequence())
            else:
                # the start confirms itself through the connection on EVERY read of its value: a request reads it once
                state["on_every_read"] = lambda: inner.append(seq.next_sequence())
            try:
                outer = seq.next_sequence()
            finally:
                state["on_read"] = None
                state["on_every_read"] = None
            res.count("fault.request_during_request")
            tr.ev("local", "next-in-next", inner[:1], outer)
            want = [start + n % 10, start + (n + 1) % 10]
            if inner + [outer] != want:
                s.fail("sequence-value", "local", f"local history step {i}: a request made from inside the start's value read returned "
                       f"{inner[:1]}, the request it interrupted then returned {outer}; requests #{n} and #{n + 1} with start {start} are {want}")
                return
            n += 2
        elif op[0] == "failed_next_with_update_inside":
            new_start = ProbeStart(op[1])

            def update_then_fail():
                seq.set_sequence_start(new_start)
                raise SimFault("start value unavailable after all")
            state["on_read"] = update_then_fail
            try:
                got = seq.next_sequence()
                raised = False
            except SimFault:
                raised = True
            state["on_read"] = None
            res.count("fault.update_during_failed_request")
            tr.ev("local", "failed-next+set", raised, op[1])
            installed = new_start
            start = op[1]          # the update happened, whatever became of the request it arrived in
            if not raised:
                n += 1             # a number was handed out after all (which start it used is not prescribed, as above)
            owns_start_object = True
        elif op[0] == "continue_on_copy":
            import copy as _copy
            try:
                original = seq
                seq = _copy.copy(seq)           # shallow: the start object in force is shared, the counter travels along
                res.count("probe.history_continued_on_a_copy")
                for _ in range(i % 3):
                    original.next_sequence()    # the previous owner goes on with ITS object: none of the copy's business
            except Exception:  # noqa  (whether a sequencer can be copied is not the property)
                pass
            tr.ev("local", "copy")
        elif op[0] == "look":
            import copy as _copy
            try:
                how = op[1]
                if how == "repr":
                    repr(seq)
                elif how == "str":
                    str(seq)
                elif how == "format":
                    f"{seq} {seq!r}"
                elif how == "dir":
                    for name in dir(seq):
                        if not name.startswith("__") and not callable(getattr(type(seq), name, None)):
                            getattr(seq, name, None)         # attributes and properties, not methods
                elif how == "vars":
                    dict(vars(seq))
                elif how == "bool":
                    bool(seq)
                elif how == "eq":
                    _ = (seq == seq, seq != 3)
                elif how == "hash":
                    hash(seq)
                else:
                    _copy.copy(seq)
            except Exception:  # noqa  (whether a sequencer can be hashed / copied is not the property)
                pass
            res.count("probe.sequencer_looked_at")
            tr.ev("local", "look", op[1])
        elif op[0] == "replace_broken":
            state["broken"] = installed
            fresh = ProbeStart(op[1])
            try:
                seq.set_sequence_start(fresh)
            except BaseException as e:  # noqa
                s.fail("update-lost", "local", f"local history step {i}: handing over a readable start ({op[1]}) raised "
                       f"{type(e).__name__}: {e} because the start it replaces cannot be read any more")
                return
            finally:
                state["broken"] = None
            installed = fresh
            start = op[1]
            res.count("fault.start_in_force_broken_at_update")
            tr.ev("local", "replace_broken", op[1])
            owns_start_object = True
        elif op[0] == "reinstall_earlier":
            if history_of_starts:
                installed = history_of_starts[op[1] % len(history_of_starts)]
                seq.set_sequence_start(installed)
                start = installed._v
                res.count("probe.earlier_start_object_installed_again")
                tr.ev("local", "reinstall", start)
                owns_start_object = True
        elif op[0] == "install_prepared":
            if prepared:
                installed = prepared.pop(0)
                seq.set_sequence_start(installed)
                start = installed._v
                tr.ev("local", "install", start)
                owns_start_object = True
        elif op[0] == "set_in_place":
            if not owns_start_object:
                continue
            installed._v = op[1]        # "the start value in force at that moment" is what the start object says now
            start = op[1]
            res.count("probe.start_object_changed_in_place")
            tr.ev("local", "set_in_place", op[1])
        elif op[0] in ("next", "next_in_thread"):
            if op[0] == "next_in_thread":
                import threading
                box = []
                th = threading.Thread(target=lambda: box.append(seq.next_sequence()))
                th.start()
                th.join()
                res.count("probe.request_from_another_thread")
                if not box:
                    s.fail("exception", "local", f"local history step {i}: next_sequence() raised in a second caller thread")
                    return
                got = box[0]
            else:
                got = seq.next_sequence()
            want = start + n % 10
            tr.ev("local", "next", got)
            if got != want:
                s.fail("sequence-value", "local", f"local history step {i}: request #{n} returned {got}, start in force {start} + "
                       f"({n} mod 10) = {want} (history {plan['local'][:i + 1][-8:]})")
                return
            n += 1
        elif op[0] == "next_with_update_inside":
            # a start update arrives while a request is in progress (re-entrantly, from the start's own value read);
            # which start that request itself used is not prescribed - the NEXT request must use the new one
            new_start = installed = ProbeStart(op[1])
            state["on_read"] = lambda: seq.set_sequence_start(new_start)
            got = seq.next_sequence()
            state["on_read"] = None
            res.count("fault.update_during_request")
            tr.ev("local", "next+set", got, op[1])
            owns_start_object = True
            if got not in (start + n % 10, op[1] + n % 10):
                s.fail("sequence-value", "local", f"local history step {i}: request #{n} overlapping an update {start}->{op[1]} "
                       f"returned {got}")
                return
            n += 1
            start = op[1]
        else:
            state["outage"] = ["fault", "attribute", "key"][(i + plan.get("start_base", 0)) % 3]
            got = None
            try:
                got = seq.next_sequence()
                raised = False
            except (SimFault, AttributeError, KeyError):
                raised = True
            finally:
                state["outage"] = False
            res.count("fault.start_unreadable_during_request")
            tr.ev("local", "outage", raised, got)
            # a request that raised returned no number: n does not advance.  One that returned a number although the
            # start in force could not be read has returned the n-th number like any other request
            if not raised:
                want = start + n % 10
                if got != want:
                    s.fail("sequence-value", "local", f"local history step {i}: request #{n} was answered with {got} while the start in "
                           f"force ({start}) could not be read; start + ({n} mod 10) = {want}")
                    return
                n += 1


def execute(plan, env):
    res = Result()
    tr = Trace(keep=env.keep_trace)
    s = _Session(plan, env, res, tr)
    try:
        run_local(plan, s, res, tr)
        if res.violation is None:
            s.run()
    except Exception as e:
        if res.violation is None:
            res.violation = {"kind": "exception", "signature": f"C13|exception|{type(e).__name__}",
                             "detail": f"{type(e).__name__}: {e}", "step": tr.steps}
    res.sim_time = float(s.net.now)
    res.digest = tr.digest()
    res.steps = tr.steps
    res.count("messages_delivered", s.net.delivered)
    res.sample = {"script": [str(i) for i in plan["script"][:10]], "n_script": len(plan["script"]),
                  "jitter": plan["jitter"], "virtual_ms": s.net.now, "events": tr.steps}
    return res


LEVEL_TEXT = (
    "Seeded search over schedules of a two-peer session on a virtual-time FIFO network: message latencies, ping "
    "times relative to client traffic, burst sizes crossing several wrap-arounds, back-to-back and in-flight "
    "updates, reconnects. Invariants checked at every event: per peer the n-th sequence number equals the start "
    "in force + (n mod 10) with n never reset; every client packet's transmitted sequence equals the server's "
    "expectation; every value fits its field. Sampling, not proof; no liveness bound beyond 'the event queue drains'."
)
LEVEL_NOTE = "Trusted: harness node scripts and SimNet; FIFO transport is assumed, as for the real game."
TECHNIQUE = "deterministic discrete-event simulation of client and server with seeded latencies and start updates; per-peer model + lockstep invariant"
