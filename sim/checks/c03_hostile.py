"""C03 - Generated deserializers obey the spec on truncated or hostile bytes.

Simulated system: peer A serializes a value with the real generated serializer; the bytes
cross a transport that truncates, flips, inserts, deletes, appends junk, coalesces messages or
replaces them with random bytes; peer B runs the real generated deserializer on what arrives.
Oracle: the reference interpreter of the XML (spec_model read walk) over the same bytes.
Per message every truncation point and every single flip to 0x00/0xFE/0xFF is enumerated;
stacked faults and random buffers are seeded on top.
"""

import random

from ..core import Result, Trace, ddmin
from ..bridge import diff
from ..gen import specgen, valuegen
from ..models.spec_model import read_walk, ModelStepLimit
from ..seams import StepCap, HarnessError
from ..treeenv import get_tree_env, TreeRejected, closure, prune_tree, element_deletions, shape_features

ID = "C03"
LEVEL = "fault_enumeration"
SELFTEST_N = 64
BATCH = 2
DOUBLE_EVERY = 41
TASK_LIMIT_S = 1200
BUDGET = {"quick": 35.0, "thorough": 1200.0}
SHRINK_BUDGET = 300
RULE = (
    "one evaluation = one delivered byte string deserialized by a real generated class and by the reference "
    "interpreter; per valid message every truncation length and every single substitution of 0x00/0xFE/0xFF at "
    "every offset is enumerated, plus seeded stacked faults (truncate/flip/insert/delete/junk/coalesce), random "
    "buffers and slice-embedding between canaries; distinct = distinct (class shape hash, fault kind, outcome "
    "class {equal, ValueError, short-read, optional-absent}) triples; non-trivial = the delivered bytes differ "
    "from the valid serialization"
)
ASSUMPTIONS = [
    "reference interpreter sim/models/spec_model.py encodes the eo-protocol reading rules as the property states them",
    "array length fields are limited to byte/char/short and data-driven loops nest at most two deep (a hostile three/int length prescribes a >=16M-element result the sandbox cannot materialise)",
    "spec trees come from sim/gen/specgen.py (valid, non-degenerate by construction); messages <= 4 KiB; step cap 2*10^6",
]
COMPONENTS = {
    "real": ["protocol_code_generator (run per tree)", "generated serialize/deserialize", "EoReader/EoWriter", "ProtocolEnumMeta"],
    "stub_or_harness": ["SimNet-style fault transport", "spec/value generators", "reference XML interpreter", "step-counting reader subclass"],
}
FAULT_KINDS = ["truncate", "flip", "insert", "delete", "junk", "junk_ff", "coalesce", "random_bytes", "embed", "none", "directed"]
PROBES = [
    "optional_present", "optional_absent", "optional_array_absent", "negative_fixed_string_length",
    "unknown_enum_ordinal", "switch_default", "switch_no_case", "switch_case", "dummy_read", "dummy_skipped",
    "array_partial_trailing_element_ignored", "documented_value_error", "step_cap", "serialize_failed_value_skipped",
    "tree_rejected", "warnings_as_errors",
]


_HDR = '<?xml version="1.0" encoding="UTF-8"?>\n'
_EMPTY = _HDR + "<protocol>\n</protocol>\n"
DIRECTED = [
    {   # known finding: hang on an unbounded array whose struct element starts in its own <chunked> section
        "tree": {
            "protocol.xml": _HDR + """<protocol>
    <struct name="Inner">
        <chunked>
            <field name="a" type="char"/>
        </chunked>
    </struct>
    <struct name="Outer">
        <array name="items" type="Inner"/>
    </struct>
</protocol>
""",
            "map/protocol.xml": _EMPTY, "pub/protocol.xml": _EMPTY, "pub/server/protocol.xml": _EMPTY,
            "net/client/protocol.xml": _EMPTY, "net/server/protocol.xml": _EMPTY,
            "net/protocol.xml": _HDR + """<protocol>
    <enum name="PacketFamily" type="byte">
        <value name="Init">255</value>
    </enum>
    <enum name="PacketAction" type="byte">
        <value name="Init">255</value>
    </enum>
</protocol>
""",
        },
        "cases": [{"cls": "Outer", "delivered": "02ff03", "fault": "directed"}],
    },
]


def generate(streams, tier):
    rng = streams.get("spec")
    tree = specgen.gen_tree(rng, "full")
    prng = streams.get("plan")
    return {
        "tree": tree,
        "tier": tier,
        "case_seed": prng.randrange(1 << 30),
        "values_per_class": 2 if tier == "quick" else 4,
        "stacked_per_message": 12 if tier == "quick" else 40,
        "random_per_class": 6 if tier == "quick" else 20,
        "warnings_as_errors": prng.random() < 0.15,
    }


# ---------------------------------------------------------------------------------------------


def _biased_byte(rng):
    return rng.choice([0x00, 0x01, 0xFD, 0xFE, 0xFF]) if rng.random() < 0.6 else rng.randrange(256)


def apply_faults(data, faults):
    out = bytearray(data)
    for f in faults:
        k = f[0]
        if k == "truncate":
            del out[min(f[1], len(out)):]
        elif k == "flip":
            if out:
                out[f[1] % len(out)] = f[2]
        elif k == "insert":
            out.insert(f[1] % (len(out) + 1), f[2])
        elif k == "delete":
            if out:
                del out[f[1] % len(out)]
        elif k in ("junk", "junk_ff", "coalesce"):
            out += bytes.fromhex(f[1])
    return bytes(out)


STEP_CAP = 400_000


def nontermination_class(spec, cls_name):
    """Static call-site class of a hang: does the class reach an unbounded, non-delimited array whose struct
    element starts inside its own <chunked> section (the element reads nothing at a chunk boundary)?"""
    seen = set()

    def starts_chunked(cd):
        for ins in cd.body:
            if ins.tag == "chunked":
                return True
            if ins.tag == "field" and spec.resolve(ins.type)[0] == "struct":
                return starts_chunked(spec.structs[spec.resolve(ins.type)[1]])
            return False
        return False

    def walk(cd):
        if cd.name in seen:
            return False
        seen.add(cd.name)
        stack = list(cd.body)
        while stack:
            ins = stack.pop()
            if ins.tag == "chunked":
                stack.extend(ins.body)
            elif ins.tag == "switch":
                for c in ins.cases:
                    if c.body is not None and walk(c.body):
                        return True
            elif ins.tag in ("field", "array") and ins.type and spec.resolve(ins.type)[0] == "struct":
                el = spec.structs[spec.resolve(ins.type)[1]]
                if (ins.tag == "array" and ins.length is None and not ins.delimited
                        and spec.struct_fixed_size(el.name) is None and starts_chunked(el)):
                    return True
                if walk(el):
                    return True
        return False

    return "unbounded-array-of-struct-starting-in-chunked-section" if walk(spec.classes[cls_name]) else "step-cap"


def shape_hash(cd):
    def walk(body):
        out = []
        for ins in body:
            if ins.tag == "chunked":
                out.append("C(" + walk(ins.body) + ")")
            elif ins.tag == "switch":
                out.append("S(" + "|".join(walk(c.body.body) if c.body else "-" for c in ins.cases) + ")")
            else:
                out.append(ins.tag[0] + ("?" if ins.optional else "") + ("l" if ins.length else "") + ("d" if ins.delimited else ""))
        return ",".join(out)
    return str(hash_str(walk(cd.body)))


def hash_str(s):
    import hashlib
    return int.from_bytes(hashlib.sha256(s.encode()).digest()[:4], "big")


PLAN_OP_BUDGET = {"quick": 1_500_000, "thorough": 6_000_000}


class Runner:
    def __init__(self, te, res, tr, known, op_budget=10**9):
        self.te, self.res, self.tr, self.known = te, res, tr, known
        self.failed = None
        self.ops_left = op_budget

    def exhausted(self):
        """Deterministic per-plan work bound (primitive reads by real code + reference interpreter)."""
        if self.ops_left <= 0:
            self.res.count("plan_op_budget_exhausted")
            return True
        return False

    def deliver(self, cls_name, data, kind):
        """Run real and model on `data`; returns False when a (new) violation was recorded."""
        te, res = self.te, self.res
        real_cls = te.bridge.cls(cls_name)
        cd = te.spec.classes[cls_name]
        # a case-data class declared inside <chunked> is only ever entered in chunked mode
        entry_mode = cd.kind == "case" and cd.static_chunked
        # the same bytes as bytes / bytearray / a memoryview window into a larger buffer
        self.n_deliveries = getattr(self, "n_deliveries", 0) + 1
        kind_of_buffer = self.n_deliveries % 5
        if kind_of_buffer == 3:
            buf = bytearray(data)
        elif kind_of_buffer == 4:
            buf = memoryview(b"\x41\xff" + data + b"\x00\xff\x42")[2:2 + len(data)]
        else:
            buf = data
        reader = te.FaultyReader(buf, cap=STEP_CAP)
        if entry_mode:
            reader.chunked_reading_mode = True
        exc = None
        out = None
        try:
            out = real_cls.deserialize(reader=reader) if self.n_deliveries % 7 == 0 else real_cls.deserialize(reader)
        except StepCap:
            exc = "StepCap"
        except Exception as e:  # noqa
            exc = e
        res.count("fault." + kind)
        res.evaluations += 1
        self.ops_left -= reader.sim_n
        viol = None
        walk = None
        if exc != "StepCap":
            try:
                outcome, mobj, walk = read_walk(te.spec, cls_name, data, entry_mode, step_limit=4 * STEP_CAP)
            except ModelStepLimit:
                raise HarnessError("reference interpreter exceeded its step limit although the real code terminated")
            for p in walk.probes:
                res.count("probe." + p)
            self.ops_left -= len(walk.ops)
        if exc == "StepCap":
            res.count("probe.step_cap")
            viol = ("nontermination", nontermination_class(te.spec, cls_name),
                    f"deserialize made more than {STEP_CAP} reader calls on {len(data)} bytes (does not terminate)")
        elif exc is not None:
            name = type(exc).__name__
            if name == "ValueError" and outcome == "ValueError":
                res.count("probe.documented_value_error")
                oc = "ValueError"
            else:
                msg = "".join(c for c in str(exc) if not c.isdigit())[:60]
                viol = ("exception", f"{name}:{msg}", f"deserialize raised {name}: {exc} "
                        f"(reference outcome: {outcome})")
        elif outcome == "ValueError":
            viol = ("missing-value-error", "ValueError", "reference rules hit a negative fixed-string length "
                    "(documented ValueError) but deserialize returned an object")
        else:
            problems = []
            real = te.bridge.extract(out, cls_name, problems)
            if problems:
                viol = ("result-type", problems[0].split(":")[-1].strip()[:50], problems[0])
            else:
                d = diff(real, mobj)
                if d:
                    what = "byte_size" if ".byte_size" in d else ("structure" if "elements" in d or "present only" in d else "value")
                    viol = ("mismatch", what, d)
                elif reader.position != mobj.byte_size:
                    viol = ("mismatch", "position", f"reader.position {reader.position} after the call, rules say {mobj.byte_size}")
                elif bool(reader.chunked_reading_mode) != entry_mode:
                    viol = ("mode", "mode-not-restored", "reader's chunked mode differs from the entry mode after the call")
            oc = "equal"
            if not viol:
                if mobj.byte_size < len(data):
                    oc = "short-read"
                elif "optional_absent" in walk.probes or "optional_array_absent" in walk.probes:
                    oc = "optional-absent"
        self.tr.ev(cls_name, len(data), kind, "viol" if viol else oc)
        if viol is None:
            if kind != "none":
                res.keys.add(f"{shape_hash(te.spec.classes[cls_name])}|{kind}|{oc}")
            return True
        signature = f"C03|{viol[0]}|{viol[1]}"
        v = {"kind": viol[0], "signature": signature,
             "detail": f"{cls_name}.deserialize({data.hex()!r}) [{kind}]: {viol[2]}", "step": self.tr.steps,
             "case": {"cls": cls_name, "delivered": data.hex(), "fault": kind}}
        if signature in self.known:
            if not any(k["signature"] == signature for k in res.known):
                res.known.append({"signature": signature, "detail": v["detail"]})
            return True
        res.violation = v
        return False

    def embed(self, cls_name, data, rng):
        """Nothing outside the supplied bytes is read: deliver via slice() between canaries."""
        te = self.te
        real_cls = te.bridge.cls(cls_name)
        outs = []
        for canary in (bytes([0x41]) * 7, bytes([0xFF, 0x00, 0xFE, 0xFF, 0x01, 0xFF, 0xFF]), b"",
                       bytes([0x41, 0x00, 0xFF, 0x42, 0xFF, 0x01, 0x43])):
            big = canary + data + canary
            reader = te.EoReader(big).slice(len(canary), len(data))
            cd = te.spec.classes[cls_name]
            if cd.kind == "case" and cd.static_chunked:
                reader.chunked_reading_mode = True
            try:
                o = real_cls.deserialize(reader)
                problems = []
                outs.append(("ok", repr(te.bridge.extract(o, cls_name, problems)), reader.position))
            except Exception as e:  # noqa
                outs.append((type(e).__name__, "", None))
        self.res.count("fault.embed")
        self.res.evaluations += 1
        self.tr.ev(cls_name, "embed", outs[0][0])
        if not all(o == outs[0] for o in outs):
            self.res.violation = {
                "kind": "embed", "signature": "C03|embed|result-depends-on-surrounding-bytes",
                "detail": f"{cls_name}.deserialize over slice() of {data.hex()!r}: result depends on the bytes "
                          f"around the slice: {outs}", "step": self.tr.steps,
                "case": {"cls": cls_name, "delivered": data.hex(), "fault": "embed"}}
            return False
        return True


def execute(plan, env):
    import warnings
    with warnings.catch_warnings():
        if plan.get("warnings_as_errors"):
            warnings.simplefilter("error")
            warnings.simplefilter("default", DeprecationWarning)
            warnings.simplefilter("default", PendingDeprecationWarning)
        res = _execute(plan, env)
        if plan.get("warnings_as_errors"):
            res.count("probe.warnings_as_errors")
        return res


def _execute(plan, env):
    res = Result()
    res.evaluations = 0
    tr = Trace(keep=env.keep_trace)
    try:
        te = get_tree_env(env, plan["tree"])
    except TreeRejected as e:
        res.count("probe.tree_rejected")
        res.evaluations = 1
        res.digest = tr.digest()
        res.sample = {"tree_rejected": str(e)[:200]}
        if getattr(e, "stage", None) == "import":
            # the generator ACCEPTED the specification, but the package it wrote cannot be imported: no deserializer
            # exists for any of its types (a rejection by the generator itself is C18's business, not C03's)
            import re
            res.violation = {"kind": "deserializer-missing", "signature": "C03|deserializer-missing|import",
                             "detail": "the generator accepted the specification but the generated package cannot be imported: "
                                       + re.sub(r"/[^ '\"]*eolib-verif-[^ '\"]*", "<scratch>", str(e))[:300], "step": 0}
        return res
    # every declared struct / packet / case has its generated class (there is no deserializer to obey the spec otherwise)
    for name in sorted(te.spec.classes):
        try:
            te.bridge.cls(name)
        except (ImportError, AttributeError) as e:
            res.violation = {"kind": "deserializer-missing", "signature": f"C03|deserializer-missing|{te.spec.classes[name].kind}",
                             "detail": f"the accepted specification declares {name} but the generated package has no such class "
                                       f"({type(e).__name__}: {e})", "step": 0}
            res.evaluations = 1
            res.digest = tr.digest()
            return res
    run = Runner(te, res, tr, env.known, PLAN_OP_BUDGET.get(plan.get("tier"), 10**9))
    if plan.get("explore") and "cases" not in plan and plan.get("seed_index") == 0:
        # directed cases (known findings are probed by a fixed input, so that they are identified by it)
        for d in DIRECTED:
            dte = get_tree_env(env, d["tree"])
            drun = Runner(dte, res, tr, env.known)
            for c in d["cases"]:
                if not drun.deliver(c["cls"], bytes.fromhex(c["delivered"]), "directed"):
                    break
            if res.violation:
                res.violation["replan"] = {"tree": d["tree"], "cases": [res.violation["case"]]}
                break
        te = get_tree_env(env, plan["tree"])
        run.te = te
    if "cases" not in plan:
        for f in shape_features(te.spec):
            res.count("shape." + f)
    if res.violation:
        pass
    elif "cases" in plan:                      # concrete (minimised) cases
        for c in plan["cases"]:
            data = bytes.fromhex(c["delivered"])
            ok = run.embed(c["cls"], data, None) if c.get("fault") == "embed" else run.deliver(c["cls"], data, c.get("fault", "none"))
            if not ok:
                break
    else:
        rng = random.Random(plan["case_seed"])
        classes = sorted(te.all_classes(), key=lambda c: c.name)
        valid_msgs = []
        for cd in classes:
            if run.exhausted() or not _class_messages(run, te, cd, plan, rng, valid_msgs):
                break
    res.digest = tr.digest()
    res.steps = tr.steps
    if res.evaluations == 0:
        res.evaluations = 1
    res.sample = {"classes": len(te.spec.classes), "deliveries": res.evaluations,
                  "example_class": sorted(te.spec.classes)[0] if te.spec.classes else None}
    return res


def _class_messages(run, te, cd, plan, rng, valid_msgs):
    vg = valuegen.ValueGen(te.spec, rng)
    real_cls = te.bridge.cls(cd.name)
    msgs = []
    for _ in range(plan["values_per_class"]):
        try:
            val = vg.gen_class(cd)
            obj = te.bridge.instantiate(val)
            w = te.EoWriter()
            real_cls.serialize(w, obj)
            data = bytes(w.to_bytearray())
        except Exception:  # the value could not be built/serialized: not C03's business
            run.res.count("probe.serialize_failed_value_skipped")
            continue
        if len(data) > 4096:
            continue
        msgs.append(data)
    valid_msgs.extend(msgs[:1])
    for data in msgs:
        if run.exhausted():
            return True
        if not run.deliver(cd.name, data, "none"):
            return False
        # enumerated single faults -------------------------------------------------------------
        for k in range(len(data)):
            if not run.deliver(cd.name, data[:k], "truncate"):
                return False
        for i in range(len(data)):
            for v in (0x00, 0xFE, 0xFF):
                if data[i] != v:
                    if not run.deliver(cd.name, data[:i] + bytes([v]) + data[i + 1:], "flip"):
                        return False
        # seeded stacked faults ------------------------------------------------------------------
        for _ in range(plan["stacked_per_message"]):
            faults = []
            for _ in range(rng.choice([1, 1, 2, 3, 4])):
                k = rng.choice(["truncate", "flip", "flip", "insert", "delete", "junk", "junk_ff", "coalesce"])
                n = max(1, len(data))
                if k == "truncate":
                    faults.append([k, rng.randrange(0, n + 1)])
                elif k in ("flip", "insert"):
                    faults.append([k, rng.randrange(0, n + 1), _biased_byte(rng)])
                elif k == "delete":
                    faults.append([k, rng.randrange(0, n)])
                elif k == "junk":
                    faults.append([k, bytes(rng.randrange(256) for _ in range(rng.randrange(1, 9))).hex()])
                elif k == "junk_ff":
                    faults.append([k, bytes(rng.choice([0xFF, 0xFF, 0xFE, 0x00, rng.randrange(256)]) for _ in range(rng.randrange(1, 9))).hex()])
                else:
                    other = rng.choice(valid_msgs) if valid_msgs else data
                    faults.append([k, other.hex()])
            delivered = apply_faults(data, faults)
            if not run.deliver(cd.name, delivered, faults[-1][0]):
                return False
            if rng.random() < 0.25:
                if not run.embed(cd.name, delivered, rng):
                    return False
        if not run.embed(cd.name, data, rng):
            return False
    for _ in range(plan["random_per_class"]):
        n = rng.choice([0, 1, 2, 3, 5, 8, 13, 21, 40])
        buf = bytes(_biased_byte(rng) if rng.random() < 0.5 else rng.randrange(1, 254) for _ in range(n))
        if not run.deliver(cd.name, buf, "random_bytes"):
            return False
    return True


# ---------------------------------------------------------------------------------------------
# minimisation: single concrete case -> pruned tree -> shorter bytes -> fewer instructions


def shrink(plan, still_fails, budget):
    from .. import core
    res = core.probe(plan)
    if res.violation is None or "case" not in res.violation:
        return plan
    case = res.violation["case"]
    best = {"tree": plan["tree"], "cases": [case], "seed_index": plan.get("seed_index"), "run_seed": plan.get("run_seed")}
    if not still_fails(best):
        return plan
    budget[0] -= 2
    keep = closure(best["tree"], [case["cls"]])
    cand = dict(best, tree=prune_tree(best["tree"], keep))
    budget[0] -= 1
    if still_fails(cand):
        best = cand
    if case.get("fault") != "embed":
        def test(bs):
            budget[0] -= 0
            c = dict(best, cases=[dict(case, delivered=bytes(bs).hex())])
            return still_fails(c)
        small = ddmin(list(bytes.fromhex(case["delivered"])), test, budget)
        case = dict(case, delivered=bytes(small).hex())
        best = dict(best, cases=[case])
    progress = True
    while progress and budget[0] > 0:
        progress = False
        for cand_tree in element_deletions(best["tree"], case["cls"]):
            if budget[0] <= 0:
                break
            budget[0] -= 1
            cand = dict(best, tree=cand_tree)
            if still_fails(cand):
                best = cand
                progress = True
                break
    return best


def post_check(agg):
    rejected = agg["counters"].get("probe.tree_rejected", 0) + agg["counters"].get("tree_rejected", 0)
    if agg["plans"] and rejected * 2 > agg["plans"]:
        return [f"{rejected} of {agg['plans']} spec trees were rejected by the generator or failed to import: "
                "nothing was explored (C18 decides whether the generator is at fault)"]
    return []


LEVEL_TEXT = (
    "Fault enumeration on a simulated transport between a serializing and a deserializing peer: for every valid "
    "message of every class of a seeded spec tree, every truncation point and every single 0x00/0xFE/0xFF "
    "substitution is delivered (complete per message), with seeded stacked faults, coalesced messages, random "
    "buffers and slice-embedding on top; each delivery must terminate and equal the reference interpreter's result "
    "field-by-field (or raise the documented ValueError exactly when the rules hit a negative fixed-string length). "
    "Spec trees and values are sampled, so this is evidence, not proof."
)
LEVEL_NOTE = (
    "Trusted: the reference interpreter of the XML reading rules (independent code, same source of truth as the "
    "property text); the spec generator's notion of 'valid, non-degenerate'. Bounds: array length fields <= short, "
    "loops nested <= 2, messages <= 4 KiB."
)
TECHNIQUE = "deterministic simulation of a faulty transport (per-message enumeration of truncations and single flips + seeded stacked faults) vs. reference interpreter"
