"""C19 - Generated protocol objects are immutable snapshots.

Per class of a generated tree an instance is obtained (a) from the constructor with
caller-owned lists / one-shot iterators as array arguments, or (b) from deserialize; a seeded
history interleaves serializations with mutation attempts: setattr/delattr of every public
field and of byte_size, mutation of the caller's original lists, in-place mutation attempts
on every value a public getter returns (tuples, byte containers, nested instances, case data).
"""

import random

from ..core import Result, Trace, ddmin
from ..gen import specgen, valuegen
from ..treeenv import get_tree_env, TreeRejected, closure, prune_tree
from .c03_hostile import shape_hash

ID = "C19"
LEVEL = "exploration"
SELFTEST_N = 96
BATCH = 2
DOUBLE_EVERY = 41
TASK_LIMIT_S = 1200
BUDGET = {"quick": 30.0, "thorough": 900.0}
SHRINK_BUDGET = 300
RULE = (
    "one evaluation = one operation of a seeded history (2-30 operations: serialize, setattr/delattr attempt, caller-side "
    "list mutation, in-place mutation attempt on a returned value) on one instance of one generated class, obtained "
    "from the constructor (lists / one-shot iterators as array arguments) or from deserialize; distinct = distinct "
    "(class shape hash, instance origin, operation kind, declared type of the targeted field); non-trivial = a "
    "mutation attempt (serializations are the observations)"
)
ASSUMPTIONS = [
    "constructor arguments are of their documented types (blob arguments are bytes; array arguments any iterable)",
    "the public interface = documented properties, byte_size, serialize/deserialize/write; underscore attributes are private",
    "no fault or nondeterminism is involved: the simulation is seeded history exploration",
]
COMPONENTS = {
    "real": ["protocol_code_generator (run per tree)", "generated classes (constructor, properties, serialize, deserialize)", "EoReader/EoWriter"],
    "stub_or_harness": ["history generator", "spec/value generators", "reference spec parser (which members are public)", "sim/interleave.py scheduler (real threads, the schedule decides every switch)"],
}
FAULT_KINDS = ["preemption_between_lines", "sibling_instance_created", "setattr_attempt", "delattr_attempt", "source_list_mutation", "returned_value_mutation_attempt"]
PROBES = ["first_use_by_two_caller_threads", "receive_buffer_reused_after_deserialize", "two_caller_threads_interleaved", "looked_at_like_a_python_object", "snapshot_unavailable", "member_unreadable_before_assignment", "serialize_into_shared_writer", "twin_instance_compared", "reincarnated_instance_compared", "serialize_into_nonempty_writer", "unserializable_instance_observed", "invalid_instance", "live_sequence_view_argument", "packet_write_method", "serialize_into_sanitising_writer", "array_element_mutation_attempt", "array_of_structs", "optional_array_present", "blob_on_deserialized_instance", "case_data_mutated_through_parent",
          "one_shot_iterator_argument", "nested_instance_setattr", "byte_size_setattr", "first_serialize_failed_skipped",
          "tree_rejected", "returned_value_was_mutable", "serialized_read_serialized", "arguments_changed_before_first_read", "refused_serialize_then_looked"]


def generate(streams, tier):
    rng = streams.get("spec")
    tree = specgen.gen_tree(rng, "full")
    prng = streams.get("plan")
    plan = {"tree": tree, "tier": tier, "case_seed": prng.randrange(1 << 30),
            "instances_per_class": 2 if tier == "quick" else 5}
    if prng.random() < 0.1:
        # the very first serializations after the library has been imported are made by two caller threads at once
        plan["first_use"] = [prng.randrange(1, 12) for _ in range(prng.randrange(4, 80))]
    return plan


import collections.abc


class LiveView(collections.abc.Sequence):
    """A read-only sequence that is a live view of a caller-owned list (not a list, not a tuple)."""

    def __init__(self, backing):
        self._backing = backing

    def __len__(self):
        return len(self._backing)

    def __getitem__(self, i):
        return self._backing[i]


class Instance:
    """A real object under test plus the caller-owned containers it was built from."""

    def __init__(self, te, cls_name, origin, value=None, data=None, iter_mask=0):
        self.te, self.cls_name, self.origin = te, cls_name, origin
        self.sources = []
        self.siblings = []
        self.shared = None
        self.iter_count = 0
        self.view_count = 0
        if origin == "ctor":
            self.obj = self._build(value, [iter_mask])
        else:
            self.receive_buffer = None
            if data is not None and len(data) % 2 == 0 and len(data) > 0:
                # the application reads into a receive buffer that it reuses for the next packet
                self.receive_buffer = bytearray(data)
                self.obj = te.bridge.cls(cls_name).deserialize(te.EoReader(self.receive_buffer))
            else:
                self.obj = te.bridge.cls(cls_name).deserialize(te.EoReader(data))

    def _build(self, value, mask):
        te = self.te
        if value is None or isinstance(value, (bool, int, str)):
            return value
        if isinstance(value, list):
            lst = [self._build(v, mask) for v in value]
            self.sources.append(lst)
            kind = mask[0] & 3
            mask[0] >>= 2
            if kind == 1:
                self.iter_count += 1
                return iter(lst)
            if kind == 2:
                self.view_count += 1
                return LiveView(lst)
            return lst
        if "enum" in value:
            if value["v"] % 4 == 1:
                self.plain_enum_numbers = getattr(self, "plain_enum_numbers", 0) + 1
                return value["v"]           # the application names the value by its number (the members ARE integers)
            return te.bridge.cls(value["enum"])(value["v"])
        if "blob" in value:
            return bytes.fromhex(value["blob"])
        kwargs = {k: self._build(v, mask) for k, v in value["f"].items()}
        return te.bridge.cls(value["cls"])(**kwargs)

    def serialize(self, sanitize=False, via_write=False, prefix=0):
        w = self.te.EoWriter()
        if prefix:
            w.add_bytes(bytes([1, 2, 3, 4, 5, 6, 7][:prefix]))     # a writer that already holds something (e.g. a header)
        w.string_sanitization_mode = bool(sanitize)
        if via_write and hasattr(self.obj, "write"):
            self.obj.write(w)
        elif prefix == 1:
            self.te.bridge.cls(self.cls_name).serialize(writer=w, data=self.obj)
        else:
            self.te.bridge.cls(self.cls_name).serialize(w, self.obj)
        return bytes(w.to_bytearray())[prefix:]

    def serialize_shared(self, obj=None):
        """Append to a long-lived writer that other (possibly failing) serializations also use."""
        if self.shared is None:
            self.shared = self.te.EoWriter()
        before = len(self.shared)
        self.te.bridge.cls(self.cls_name).serialize(self.shared, self.obj if obj is None else obj)
        return bytes(self.shared.to_bytearray())[before:]

    def snapshot(self):
        """Everything the public getters show, at every depth (must never change)."""
        problems = []
        tree = self.te.bridge.extract(self.obj, self.cls_name, problems)
        return repr(tree) + repr(problems)

    def targets(self):
        """[(path, object, class name)] of every generated-class instance reachable through getters."""
        out = []
        spec = self.te.spec

        def walk(obj, cls_name, path):
            out.append((path, obj, cls_name))
            cd = spec.classes[cls_name]
            for attr, ins in spec.public_members(cd):
                try:
                    v = getattr(obj, attr)
                except Exception:
                    continue
                if v is None:
                    continue
                if ins.tag == "switch":
                    qn = type(v).__qualname__
                    if qn in spec.classes:
                        walk(v, qn, path + [attr])
                elif spec.resolve(ins.type)[0] == "struct":
                    base = spec.resolve(ins.type)[1]
                    if ins.tag == "array":
                        for i, el in enumerate(list(v)[:3]):
                            if type(el).__qualname__ == base:
                                walk(el, base, path + [attr, i])
                    elif type(v).__qualname__ == base:
                        walk(v, base, path + [attr])

        walk(self.obj, self.cls_name, [])
        return out


def other_value(v):
    if isinstance(v, bool):
        return not v
    if isinstance(v, int):
        return int(v) + 1
    if isinstance(v, str):
        return v + "x"
    if isinstance(v, tuple):
        return v + v[:1]
    if isinstance(v, (bytes, bytearray)):
        return bytes(v) + b"\x01"
    return v


def gen_ops(inst, rng, n):
    """Concrete operation list for one instance (paths are resolved against the current object graph)."""
    spec = inst.te.spec
    is_packet = spec.classes[inst.cls_name].kind == "packet"

    def observe():
        return ["serialize", rng.random() < 0.3, is_packet and rng.random() < 0.5, rng.choice([0, 0, 0, 1, 4])]

    ops = [observe()]
    targets = inst.targets()
    for _ in range(n):
        r = rng.random()
        if r < 0.2:
            ops.append(observe())
            continue
        if r < 0.25:
            ops.append(["serialize_shared"])
            continue
        if rng.random() < 0.08:
            # the instance (or something nested in it) is looked at the way Python programs look at objects
            ops.append(["look", targets[rng.randrange(len(targets))][0],
                        rng.choice(["hash", "eq", "repr", "str", "copy", "deepcopy", "in_set", "dict_key", "format", "bool", "dir"])])
            continue
        ti = rng.randrange(len(targets))
        path, obj, cls_name = targets[ti]
        members = spec.public_members(spec.classes[cls_name])
        attrs = [a for a, _ in members] + ["byte_size"]
        attr = rng.choice(attrs)
        if r < 0.55:
            ops.append(["setattr", path, attr])
        elif r < 0.62:
            ops.append(["delattr", path, attr])
        elif r < 0.72:
            # another instance of the same class comes into being (constructed, or deserialized from a prefix)
            try:
                val = valuegen.ValueGen(spec, rng, p_none=0.3).gen_class(spec.classes[inst.cls_name])
                if rng.random() < 0.5:
                    ops.append(["sibling_ctor", val])
                else:
                    tmp = Instance(inst.te, inst.cls_name, "ctor", val)
                    data = tmp.serialize()
                    ops.append(["sibling_deserialize", data[: rng.randrange(0, len(data) + 1)].hex()])
            except Exception:
                pass
        elif r < 0.8 and inst.sources:
            ops.append(["mutate_source", rng.randrange(len(inst.sources)), rng.choice(["append", "clear", "replace", "reverse"])])
        else:
            ops.append(["mutate_returned", path, attr, rng.choice(["setitem", "append", "extend", "clear", "iadd"]),
                        rng.choice([None, 0, 1, -1])])
    ops.append(observe())
    ops.append(["serialize", False, False])
    return ops


def resolve(inst, path):
    obj = inst.obj
    for step in path:
        obj = obj[step] if isinstance(step, int) else getattr(obj, step)
    return obj


def run_history(inst, ops, res, tr, case, shape):
    """Returns a violation dict or None."""
    te = inst.te
    spec = te.spec

    def viol(kind, sub, detail):
        return {"kind": kind, "signature": f"C19|{kind}|{sub}", "detail": detail, "step": tr.steps, "case": case}

    def kind_of(cls_name, attr):
        if attr == "byte_size":
            return "byte_size"
        for a, ins in spec.public_members(spec.classes[cls_name]):
            if a == attr:
                if ins.tag == "switch":
                    return "case_data"
                return ("array_of_" if ins.tag == "array" else "") + spec.resolve(ins.type)[0]
        return "?"

    # arrays are tuples at every depth
    for path, obj, cls_name in inst.targets():
        for attr, ins in spec.public_members(spec.classes[cls_name]):
            if ins.tag == "array":
                v = getattr(obj, attr)
                if v is not None:
                    if ins.optional:
                        res.count("probe.optional_array_present")
                    if spec.resolve(ins.type)[0] == "struct" and len(v):
                        res.count("probe.array_of_structs")
                    if type(v) is not tuple:
                        return viol("array-not-tuple", inst.origin, f"{cls_name}.{attr} of a {inst.origin} instance is a {type(v).__name__}")
    def reincarnation():
        # ... also when a different instance of the class lived and died in between ("reincarnation": the
        # interpreter hands the storage of a dead object to the next one of its size, so anything the code
        # remembers about an instance by identity rather than by content resurfaces here).  The reference
        # bytes come from an instance that stays alive; the short-lived one is built from the same arguments.
        alts = []
        for op in ops:
            if op[0] == "sibling_ctor" and case["origin"] == "ctor":
                alts.append(("ctor", op[1], None))
            elif op[0] == "sibling_deserialize":
                alts.append(("deserialize", None, bytes.fromhex(op[1])))
        for origin, val, data in alts[:3]:
            try:
                keeper = Instance(te, inst.cls_name, origin, val, data, 0)
                want = keeper.serialize()
            except Exception:  # noqa
                continue
            if not isinstance(want, bytes):
                continue
            for _round in range(3):
                try:
                    mayfly = Instance(te, inst.cls_name, case["origin"], case.get("value"),
                                      bytes.fromhex(case["data"]) if case.get("data") is not None else None, 0)
                    mayfly.serialize()
                except Exception:  # noqa  (the case's own instance may be an invalid one)
                    pass
                mayfly = None
                try:
                    again = Instance(te, inst.cls_name, origin, val, data, 0)
                    got = again.serialize()
                    del again
                except Exception as e:  # noqa
                    got = ("raised", type(e).__name__)
                res.count("probe.reincarnated_instance_compared")
                tr.ev("reincarnation", got == want)
                if got != want:
                    return viol("equal-instances-differ", "reincarnation",
                                f"{inst.cls_name}: an instance built right after another one was discarded serializes to "
                                f"{got.hex() if isinstance(got, bytes) else got}; an equal instance built earlier to {want.hex()}")
        return None

    if case.get("origin") in ("ctor", "deserialize"):
        v = reincarnation()
        if v:
            return v
    firsts = {}
    try:
        snap0 = inst.snapshot()
    except Exception:  # noqa
        snap0 = None
        res.count("probe.snapshot_unavailable")
    for step, op in enumerate(ops):
        res.evaluations += 1
        name = op[0]
        if snap0 is not None and step > 0:
            try:
                snap = inst.snapshot()
            except Exception as e:  # noqa
                snap = f"snapshot raised {type(e).__name__}"
            if snap != snap0:
                return viol("observable-state-changed", inst.origin,
                            f"{inst.cls_name} ({inst.origin} instance): what the public getters return changed after "
                            f"{ops[step - 1]}: {snap0[:300]} -> {snap[:300]}")
        if name == "serialize":
            sanitize = bool(op[1]) if len(op) > 1 else False
            via_write = bool(op[2]) if len(op) > 2 else False
            prefix = int(op[3]) if len(op) > 3 else 0
            if prefix:
                res.count("probe.serialize_into_nonempty_writer")
            try:
                out = inst.serialize(sanitize, via_write, prefix)
            except Exception as e:  # noqa
                out = ("raised", type(e).__name__)
            tr.ev(step, name, sanitize, via_write, out.hex() if isinstance(out, bytes) else out)
            if via_write:
                res.count("probe.packet_write_method")
            if sanitize:
                res.count("probe.serialize_into_sanitising_writer")
            first = firsts.get(sanitize)
            if first is None:
                firsts[sanitize] = out
                buf = getattr(inst, "receive_buffer", None)
                if buf is not None and any(b != 0x2A for b in buf):
                    buf[:] = b"*" * len(buf)        # the next packet arrives in the same buffer (same size: readers may still hold it)
                    res.count("probe.receive_buffer_reused_after_deserialize")
                if not isinstance(out, bytes):
                    res.count("probe.unserializable_instance_observed")     # must then fail the same way every time
            elif out != first:
                prev = [o for o in ops[:step]][-3:]
                return viol("serialization-changed", inst.origin,
                            f"{inst.cls_name} ({inst.origin} instance): serialization into a fresh writer (sanitisation "
                            f"{sanitize}, via {'write()' if via_write else 'serialize()'}) changed from "
                            f"{first.hex() if isinstance(first, bytes) else first} to {out.hex() if isinstance(out, bytes) else out} "
                            f"after {prev}")
            continue
        if name == "serialize_shared":
            # siblings (some of them unserializable) go through the same long-lived writer first
            for sib in inst.siblings[-2:]:
                try:
                    inst.serialize_shared(sib)
                except Exception:  # noqa
                    pass
            try:
                out = inst.serialize_shared()
            except Exception as e:  # noqa
                out = ("raised", type(e).__name__)
            res.count("probe.serialize_into_shared_writer")
            tr.ev(step, name, out.hex() if isinstance(out, bytes) else out)
            first = firsts.get(False)
            if first is None:
                firsts[False] = out
            elif out != first:
                return viol("serialization-changed", inst.origin,
                            f"{inst.cls_name} ({inst.origin} instance): serialization into a long-lived writer (never put into "
                            f"sanitising mode by the caller, used before by other instances) gave "
                            f"{out.hex() if isinstance(out, bytes) else out}, a fresh writer gave {first.hex() if isinstance(first, bytes) else first}")
            continue
        if name == "look":
            try:
                target = resolve(inst, op[1])
            except Exception:
                continue
            import copy as _copy
            how = op[2]
            try:
                if how == "hash":
                    hash(target)
                elif how == "eq":
                    _ = (target == target, target != inst.obj, target == 7)
                elif how == "repr":
                    repr(target)
                elif how == "str":
                    str(target)
                elif how == "copy":
                    inst.siblings.append(_copy.copy(target))
                elif how == "deepcopy":
                    inst.siblings.append(_copy.deepcopy(target))
                elif how == "in_set":
                    _ = target in {target}
                elif how == "dict_key":
                    _ = {target: 1}[target]
                elif how == "format":
                    f"{target}"
                elif how == "bool":
                    bool(target)
                else:
                    dir(target)
            except Exception:  # noqa  (whether an instance is hashable / copyable is not the property)
                pass
            res.count("probe.looked_at_like_a_python_object")
            res.keys.add(f"{shape}|{inst.origin}|look|{how}")
            tr.ev(step, name, str(op[1]), how)
            continue        # the snapshot / serialization comparisons of the following steps judge the effect
        if name in ("setattr", "delattr"):
            try:
                target = resolve(inst, op[1])
            except Exception:
                continue
            cls_name = type(target).__qualname__
            if cls_name not in spec.classes:
                continue
            attr = op[2]
            fk = kind_of(cls_name, attr)
            res.keys.add(f"{shape}|{inst.origin}|{name}|{fk}")
            res.count(f"fault.{name}_attempt")
            if op[1]:
                res.count("probe.nested_instance_setattr")
                if fk == "case_data" or any(isinstance(s, str) and s.endswith("_data") for s in op[1]):
                    res.count("probe.case_data_mutated_through_parent")
            if attr == "byte_size":
                res.count("probe.byte_size_setattr")
            try:
                current = getattr(target, attr)
            except Exception:  # noqa  (a member that cannot even be read must still refuse assignment)
                current = 0
                res.count("probe.member_unreadable_before_assignment")
            try:
                if name == "setattr":
                    setattr(target, attr, other_value(current))
                else:
                    delattr(target, attr)
                raised = None
            except AttributeError:
                raised = "AttributeError"
            except Exception as e:  # noqa
                raised = type(e).__name__
            tr.ev(step, name, str(op[1]), attr, raised)
            if raised != "AttributeError":
                return viol(f"{name}-allowed", fk, f"{name} of {cls_name}.{attr} on a {inst.origin} instance "
                            f"{'raised ' + raised if raised else 'succeeded'} instead of raising AttributeError")
        elif name in ("sibling_ctor", "sibling_deserialize"):
            res.count("fault.sibling_instance_created")
            res.keys.add(f"{shape}|{inst.origin}|{name}|-")
            try:
                if name == "sibling_ctor":
                    val = op[1]
                    if step % 3 == 0:
                        from .c15_modes import corrupt_value
                        import copy
                        import random as _random
                        bad = copy.deepcopy(val)
                        if corrupt_value(bad, _random.Random(step), te.spec):
                            val = bad
                    inst.siblings.append(Instance(te, inst.cls_name, "ctor", val).obj)
                else:
                    inst.siblings.append(te.bridge.cls(inst.cls_name).deserialize(te.EoReader(bytes.fromhex(op[1]))))
            except Exception:  # noqa
                pass
            tr.ev(step, name)
        elif name == "mutate_source":
            if not inst.sources:
                continue
            lst = inst.sources[op[1] % len(inst.sources)]
            res.count("fault.source_list_mutation")
            res.keys.add(f"{shape}|{inst.origin}|mutate_source|{op[2]}")
            if op[2] == "append":
                lst.append(lst[0] if lst else 0)
            elif op[2] == "clear":
                del lst[:]
            elif op[2] == "reverse":
                lst.reverse()
            elif lst:
                lst[0] = lst[-1] if len(lst) > 1 else None
            tr.ev(step, name, op[1], op[2])
        elif name == "mutate_returned":
            try:
                target = resolve(inst, op[1])
                v = getattr(target, op[2])
            except Exception:
                continue
            cls_name = type(target).__qualname__
            fk = kind_of(cls_name, op[2]) if cls_name in spec.classes else "?"
            res.keys.add(f"{shape}|{inst.origin}|mutate_returned|{fk}")
            res.count("fault.returned_value_mutation_attempt")
            if fk == "blob" and inst.origin == "deserialize":
                res.count("probe.blob_on_deserialized_instance")
            how = op[3]
            ok = False
            if len(op) > 4 and op[4] is not None and isinstance(v, tuple) and v:
                v = v[op[4] % len(v)]       # an element of a returned array (e.g. a blob of a blob array)
                res.count("probe.array_element_mutation_attempt")
            try:
                if how == "setitem":
                    v[0] = v[0]
                    v[0] = 1 if not isinstance(v[0], int) else (v[0] + 1) % 256
                elif how == "append":
                    v.append(7)
                elif how == "extend":
                    v.extend([1, 2])
                elif how == "clear":
                    v.clear()
                else:
                    v.__iadd__([3] if not isinstance(v, (bytes, bytearray)) else b"\x03")
                ok = True
            except Exception:  # noqa
                ok = False
            tr.ev(step, name, str(op[1]), op[2], how, ok)
            if ok:
                res.count("probe.returned_value_was_mutable")
    # an equal instance built the same way serializes to the same bytes (the bytes depend on the content only)
    first = firsts.get(False)
    if isinstance(first, bytes) and case.get("origin") in ("ctor", "deserialize"):
        try:
            twin = Instance(te, inst.cls_name, case["origin"], case.get("value"),
                            bytes.fromhex(case["data"]) if case.get("data") is not None else None, 0)
            tb = twin.serialize()
        except Exception as e:  # noqa
            tb = ("raised", type(e).__name__)
        res.count("probe.twin_instance_compared")
        tr.ev("twin", tb == first)
        if tb != first:
            return viol("equal-instances-differ", inst.origin,
                        f"{inst.cls_name}: an instance built from the same {'arguments' if case['origin'] == 'ctor' else 'bytes'} "
                        f"serializes to {tb.hex() if isinstance(tb, bytes) else tb}, this one to {first.hex()}")
    if case.get("interleave") and isinstance(first, bytes):
        v = concurrent_callers(inst, ops, case, first, res, tr, viol)
        if v:
            return v
    return None



def concurrent_callers(inst, ops, case, first, res, tr, viol):
    """Two caller threads, each with its own writer, serialize at the same time under a scheduled interleaving
    (sim/interleave.py): this instance in one thread; in the other the same instance or another one of its class.
    Each must get exactly the bytes it gets alone."""
    from ..interleave import Interleaver, InterleaveStall
    te = inst.te
    other, want_other = inst, first
    for op in ops:
        if op[0] == "sibling_ctor" and case["origin"] == "ctor":
            try:
                cand = Instance(te, inst.cls_name, "ctor", op[1], None, 0)
                alone = cand.serialize()
            except Exception:  # noqa
                continue
            if isinstance(alone, bytes):
                other, want_other = cand, alone
                break

    def caller(target):
        def run():
            return [target.serialize() for _ in range(3)]
        return run

    il = Interleaver(case["interleave"], lambda filename: "eolib-verif-" in filename)
    try:
        results, errors = il.run(caller(inst), caller(other))
    except InterleaveStall as e:
        return viol("concurrent-callers-stalled", inst.origin, f"{inst.cls_name}: two caller threads serializing into their own writers "
                    f"did not both finish ({e})")
    res.count("probe.two_caller_threads_interleaved")
    res.count("fault.preemption_between_lines", il.switches)
    tr.ev("interleave", il.switches, tuple(il.lines), [r == w for r, w in ((results[0], [first] * 3), (results[1], [want_other] * 3))])
    for k, (got, want, err) in enumerate(((results[0], first, errors[0]), (results[1], want_other, errors[1]))):
        if err is not None or got != [want] * 3:
            shown = f"raised {type(err).__name__}: {err}" if err is not None else [g.hex() if isinstance(g, bytes) else g for g in got]
            return viol("concurrent-serialization-differs", inst.origin,
                        f"{inst.cls_name}: caller thread {k} serializing {'this' if k == 0 or other is inst else 'another'} instance into its own "
                        f"writers while a second thread did the same got {shown}; alone it gets {want.hex()} "
                        f"(schedule {case['interleave'][:12]}..., {il.switches} switches)")
    return None

def first_use_by_two_callers(te, plan, res, tr):
    """Right after the import (nothing has been serialized yet in this interpreter state): two caller threads serialize
    different instances into their own writers under a scheduled interleaving; afterwards every instance, serialized
    again by a single caller, must give the bytes it gave then (lazily built tables, caches filled on first use)."""
    from ..interleave import Interleaver, InterleaveStall
    rng = random.Random(plan["case_seed"] ^ 0xF1257)
    insts = []      # two different instances of every class, dealt to the two callers: both meet each class for the first time
    def switches_first(c):
        n_cases = sum(len(getattr(i, "cases", []) or []) for i in c.body if i.tag == "switch")
        return (-n_cases, c.name)

    for cd in sorted(te.all_classes(), key=switches_first)[:8]:
        pair = []
        for _ in range(2):
            try:
                val = valuegen.ValueGen(te.spec, rng, p_none=0.0).gen_class(cd)
                pair.append(Instance(te, cd.name, "ctor", val, None, 0))
            except Exception:  # noqa
                break
        if len(pair) == 2:
            insts.extend(pair)
    if len(insts) < 2:
        return None

    def caller(mine):
        def run():
            out = []
            for inst in mine:
                try:
                    out.append(inst.serialize())
                except Exception as e:  # noqa
                    out.append(("raised", type(e).__name__))
            return out
        return run

    il = Interleaver(plan["first_use"], lambda filename: "eolib-verif-" in filename)
    try:
        results, errors = il.run(caller(insts[0::2]), caller(insts[1::2]))
    except InterleaveStall as e:
        return {"kind": "concurrent-callers-stalled", "signature": "C19|concurrent-callers-stalled|first-use",
                "detail": f"two caller threads making the first serializations did not both finish: {e}", "step": 0}
    res.count("probe.first_use_by_two_caller_threads")
    res.count("fault.preemption_between_lines", il.switches)
    later = [caller(insts[0::2])(), caller(insts[1::2])()]
    tr.ev("first-use", il.switches, tuple(il.lines), [results[k] == later[k] for k in (0, 1)])
    for k in (0, 1):
        if errors[k] is not None or results[k] != later[k]:
            j = next((i for i, (a, b) in enumerate(zip(results[k] or [], later[k])) if a != b), 0)
            name = (insts[0::2] if k == 0 else insts[1::2])[j].cls_name if results[k] else "?"
            show = lambda x: x.hex() if isinstance(x, bytes) else x   # noqa
            return {"kind": "concurrent-serialization-differs", "signature": "C19|concurrent-serialization-differs|first-use",
                    "detail": f"{name}: serialized by caller thread {k} as one of the first serializations after import, while a second "
                              f"thread did the same, gave {show(results[k][j]) if results[k] else errors[k]!r}; the same instance serialized "
                              f"again later gives {show(later[k][j])} (schedule {plan['first_use'][:12]}..., {il.switches} switches)", "step": 0}
    return None


def blind_probes(te, case, res, tr):
    """Two probes that look at NOTHING before the decisive step (reading a field first can repair lazily kept state):
    (a) the caller changes the containers it passed right after construction, before the instance was ever read or
        serialized: the instance still serializes as a twin built from untouched copies of the same arguments;
    (b) a serialization - successful or refused - leaves everything the instance shows as it was."""
    import copy
    cls_name, val, iter_mask = case["cls"], case["value"], case.get("iter_mask", 0)

    def viol(kind, sub, detail):
        return {"kind": kind, "signature": f"C19|{kind}|{sub}", "detail": detail, "step": tr.steps, "case": case}

    res.evaluations += 1
    tr.ev("blind", cls_name)
    try:
        want = Instance(te, cls_name, "ctor", copy.deepcopy(val)).serialize()
    except Exception:  # noqa
        want = None
    try:
        inst = Instance(te, cls_name, "ctor", copy.deepcopy(val), None, iter_mask)
    except Exception:  # noqa
        return None
    if want is not None:
        changed = 0
        for lst in inst.sources:
            if lst:
                lst.pop()
                changed += 1
        if changed:
            res.count("probe.arguments_changed_before_first_read")
            try:
                got = inst.serialize()
            except Exception as e:  # noqa
                got = f"{type(e).__name__}: {e}"
            if got != want:
                return viol("argument-not-snapshotted", "before-first-read",
                            f"{cls_name}: the caller shortened {changed} list(s) it had passed to the constructor before the instance was "
                            f"first read or serialized; it serializes as {got.hex() if isinstance(got, bytes) else got!r}, a twin built "
                            f"from untouched copies gives {want.hex()}")
    try:
        inst = Instance(te, cls_name, "ctor", copy.deepcopy(val))
        before = repr(inst.obj)
    except Exception:  # noqa
        return None
    try:
        inst.serialize()
        outcome = "successful"
    except Exception:  # noqa
        outcome = "refused"
        res.count("probe.refused_serialize_then_looked")
    try:
        after = repr(inst.obj)
    except Exception as e:  # noqa
        after = f"{type(e).__name__}: {e}"
    if before == after and outcome == "successful":
        # (c) serialized before anything was read, then every getter read once, then serialized again
        try:
            inst = Instance(te, cls_name, "ctor", copy.deepcopy(val))
            b1 = inst.serialize()
            inst.snapshot()
            try:
                b2 = inst.serialize()
            except Exception as e:  # noqa
                b2 = f"{type(e).__name__}: {e}"
            res.count("probe.serialized_read_serialized")
            if b1 != b2:
                return viol("read-changed-serialization", "ctor",
                            f"{cls_name}: serialized to {b1.hex()} before any getter was read; after reading every getter once "
                            f"it serializes as {b2.hex() if isinstance(b2, bytes) else b2!r}")
        except Exception:  # noqa
            pass
    if before != after:
        return viol("serialize-changed-instance", outcome,
                    f"{cls_name}: repr before a {outcome} serialize: {before[:300]}; after: {after[:300]}")
    return None


def execute(plan, env):
    res = Result()
    res.evaluations = 0
    tr = Trace(keep=env.keep_trace)
    try:
        if plan.get("first_use") and "cases" not in plan:
            env.cache.clear()          # a fresh import of the library: module-level state as after interpreter start
        te = get_tree_env(env, plan["tree"])
    except TreeRejected:
        res.count("probe.tree_rejected")
        res.evaluations = 1
        res.digest = tr.digest()
        return res
    if "cases" in plan:
        for c in plan["cases"]:
            try:
                inst = Instance(te, c["cls"], c["origin"], c.get("value"), bytes.fromhex(c["data"]) if c.get("data") is not None else None,
                                c.get("iter_mask", 0))
            except Exception:
                continue
            if c.get("blind"):
                res.violation = blind_probes(te, c, res, tr)
                if res.violation:
                    break
            res.violation = run_history(inst, c["ops"], res, tr, c, shape_hash(te.spec.classes[c["cls"]]))
            if res.violation:
                break
    else:
        if plan.get("first_use"):
            res.violation = first_use_by_two_callers(te, plan, res, tr)
            if res.violation:
                res.evaluations = 1
                res.digest = tr.digest()
                res.steps = tr.steps
                return res
        rng = random.Random(plan["case_seed"])
        for cd in sorted(te.all_classes(), key=lambda c: c.name):
            vg = valuegen.ValueGen(te.spec, rng, p_none=0.2)
            shape = shape_hash(cd)
            for _ in range(plan["instances_per_class"]):
                try:
                    val = vg.gen_class(cd)
                    origin = rng.choice(["ctor", "deserialize"])
                    iter_mask = rng.getrandbits(16) if rng.random() < 0.5 else 0
                    if origin == "ctor" and rng.random() < 0.15:
                        from .c15_modes import corrupt_value
                        import copy
                        bad = copy.deepcopy(val)
                        if corrupt_value(bad, rng, te.spec):
                            val = bad
                            res.count("probe.invalid_instance")
                    if origin == "ctor":
                        case = {"cls": cd.name, "origin": "ctor", "value": val, "iter_mask": iter_mask}
                        if rng.random() < 0.3:
                            case["blind"] = True
                            case["ops"] = []
                            res.violation = blind_probes(te, case, res, tr)
                            if res.violation:
                                break
                        inst = Instance(te, cd.name, "ctor", val, None, iter_mask)
                        if inst.iter_count:
                            res.count("probe.one_shot_iterator_argument")
                        if inst.view_count:
                            res.count("probe.live_sequence_view_argument")
                    else:
                        tmp = Instance(te, cd.name, "ctor", val)
                        data = tmp.serialize()
                        inst = Instance(te, cd.name, "deserialize", None, data)
                        case = {"cls": cd.name, "origin": "deserialize", "data": data.hex()}
                except Exception:
                    res.count("probe.first_serialize_failed_skipped")
                    continue
                ops = gen_ops(inst, rng, rng.randrange(2, 31))
                case["ops"] = ops
                if rng.random() < 0.03:
                    # a second caller thread serializes at the same time (its own writer; the same or another instance)
                    case["interleave"] = [rng.randrange(1, 9) for _ in range(rng.randrange(4, 60))]
                res.violation = run_history(inst, ops, res, tr, case, shape)
                if res.violation:
                    break
            if res.violation:
                break
    if res.evaluations == 0:
        res.evaluations = 1
    res.digest = tr.digest()
    res.steps = tr.steps
    res.sample = {"classes": len(te.spec.classes), "operations": res.evaluations}
    return res


def shrink(plan, still_fails, budget):
    from .. import core
    res = core.probe(plan)
    if res.violation is None or "case" not in res.violation:
        return plan
    case = res.violation["case"]
    best = {"tree": plan["tree"], "cases": [case], "seed_index": plan.get("seed_index"), "run_seed": plan.get("run_seed")}
    if not still_fails(best):
        return plan
    cand = dict(best, tree=prune_tree(best["tree"], closure(best["tree"], [case["cls"]])))
    budget[0] -= 3
    if still_fails(cand):
        best = cand

    def test(ops):
        return still_fails(dict(best, cases=[dict(case, ops=ops)]))

    case = dict(case, ops=ddmin(case["ops"], test, budget))
    return dict(best, cases=[case])


def post_check(agg):
    rejected = agg["counters"].get("probe.tree_rejected", 0)
    if agg["plans"] and rejected * 2 > agg["plans"]:
        return [f"{rejected} of {agg['plans']} spec trees were rejected by the generator or failed to import"]
    return []


LEVEL_TEXT = (
    "Seeded exploration of histories that interleave serializations with mutation attempts (setattr/delattr of every "
    "public field and byte_size at every nesting level, caller-side mutation of the lists arrays were built from, "
    "in-place mutation attempts on every returned value) on constructed and deserialized instances of every class of "
    "seeded spec trees: every setattr must raise AttributeError, every array field must be a tuple, every "
    "serialization of the instance must equal the first. Sampling, not proof; no fault or nondeterminism dimension."
)
LEVEL_NOTE = "Trusted: the reference spec parser's list of public members; constructor arguments are of their documented types."
TECHNIQUE = "deterministic seeded history simulation (mutation attempts interleaved with serializations) with aliasing probes; two caller threads under a seeded line-level scheduler"
