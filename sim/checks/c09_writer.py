"""C09 - EoWriter validates atomically and sanitises exactly when asked.

Simulated system: one real EoWriter driven by a seeded history of valid writes, writes that
must be refused (the failure that strikes in the middle of a history), sanitisation-mode
toggles and observations; compared with the writer model after every step.
"""

import importlib

from ..core import Result, Trace
from ..gen.values import gen_string, gen_int_any, gen_int_in_range, StringPool
from ..models.writer_model import WriterModel, Rejected

ID = "C09"
LEVEL = "exploration"
BATCH = 400
BUDGET = {"quick": 30.0, "thorough": 900.0}
RULE = (
    "one evaluation = one seeded writer history (1-60 operations: valid writes, writes that must be "
    "refused, sanitisation toggles, observations); distinct = distinct (operation kind, validity class, "
    "sanitisation mode, buffer empty?, string contains y-diaeresis?, padding relation) transitions; "
    "non-trivial = a write (toggles/observations are not counted)"
)
ASSUMPTIONS = [
    "writer model written from the property statement and the EO codec description",
    "Python's cp1252 codec with errors='replace' is trusted",
    "integers are >= 0 and strings are str, as the property's domain states",
]
COMPONENTS = {
    "real": ["eolib.data.EoWriter (all public methods)", "eolib.data.encode_number", "eolib.data.encode_string"],
    "stub_or_harness": ["history generator", "WriterModel reference model"],
}
PROBES = [
    "same_string_in_both_modes", "argument_of_a_subclass_type", "two_writer_threads_interleaved", "bytearray_handed_to_add_bytes", "packet_into_sanitising_writer", "caller_mode_on_around_generated_code", "generated_enum_width_overrides", "generated_serializer_after_chunked", "generated_plain_struct_in_both_modes", "second_writer_interleaved", "refusal_on_nonempty_buffer", "refusal_right_after_mode_toggle", "perfect_fit_padded",
    "y_diaeresis_sanitized", "y_diaeresis_unsanitized", "to_bytearray_is_copy", "refusal_far_beyond_limit",
    "refusal_string_one_too_long", "refusal_string_one_too_short",
]
FAULT_KINDS = ["preemption_between_lines", "refused_write"]

INT_OPS = ["add_byte", "add_char", "add_short", "add_three", "add_int"]
STR_OPS = ["add_string", "add_encoded_string", "add_fixed_string", "add_fixed_encoded_string"]


def generate(streams, tier):
    rng = streams.get("plan")
    vr = streams.get("values")
    n = rng.randrange(1, 61)
    p_toggle = rng.choice([0.03, 0.1, 0.25])
    p_obs = rng.choice([0.02, 0.1])
    p_invalid = rng.choice([0.1, 0.3, 0.5])
    ops = []
    pool = StringPool(vr)
    for _ in range(n):
        r = rng.random()
        if rng.random() < 0.04:
            ops.append(["switch_writer"])
        elif r < p_toggle:
            ops.append(["set_mode", rng.random() < 0.5])
        elif r < p_toggle + p_obs:
            ops.append(["observe"])
        elif rng.random() < 0.4:
            op = rng.choice(INT_OPS)
            kind = op[4:]
            v = gen_int_any(vr, kind) if rng.random() < p_invalid else gen_int_in_range(vr, kind)
            ops.append([op, v])
        elif rng.random() < 0.08:
            ops.append(["add_bytes", [vr.randrange(256) for _ in range(vr.randrange(0, 6))]])
        else:
            op = rng.choice(STR_OPS)
            s = pool.get(vr)
            if op in ("add_string", "add_encoded_string"):
                ops.append([op, s])
            else:
                padded = rng.random() < 0.5
                if rng.random() < p_invalid:
                    length = max(0, len(s) + rng.choice([-2, -1, 1, 2, 5]))
                else:
                    length = len(s) + (rng.choice([0, 0, 1, 3, 10, 10, 253, 300, 2000]) if padded else 0)
                ops.append([op, s, length, padded])
    plan = {"ops": ops}
    if rng.random() < 0.03:
        plan["generated"] = {"inside": pool.get(vr), "tail": pool.get(vr), "flag": gen_int_in_range(vr, "char"),
                             "entry": rng.random() < 0.3}
    if rng.random() < 0.02:
        # two caller threads, each with a writer of its own, at the same time (sim/interleave.py)
        plan["interleave"] = [rng.randrange(1, 9) for _ in range(rng.randrange(4, 80))]
    return plan


def concurrent_writers(plan, EoWriter, res, tr):
    """The accepted writes of the plan, dealt to two writers that two caller threads fill at the same time under
    a scheduled interleaving; each writer must end up with exactly what the model gives it alone."""
    from ..interleave import Interleaver, InterleaveStall
    hands = ([], [])
    models = (WriterModel(), WriterModel())
    k = 0
    for op in plan["ops"]:
        name, args = op[0], list(op[1:])
        if name not in STR_OPS and name not in INT_OPS and name not in ("add_byte", "add_bytes"):
            continue
        if name == "add_bytes":
            args = [bytes(args[0])]
        try:
            models[k % 2].apply(name, args)
        except Rejected:
            continue
        hands[k % 2].append((name, args))
        k += 1
    if not hands[0] or not hands[1]:
        return None

    def caller(ops_):
        def run():
            w = EoWriter()
            for name, args in ops_:
                getattr(w, name)(*args)
            return bytes(w.to_bytearray())
        return run

    il = Interleaver(plan["interleave"], lambda filename: "eolib-verif-" in filename)
    try:
        results, errors = il.run(caller(hands[0]), caller(hands[1]))
    except InterleaveStall as e:
        return {"kind": "appended-bytes", "signature": "C09|concurrent-writers|stalled|sanitize=False",
                "detail": f"two caller threads with a writer each did not both finish: {e}", "step": 0}
    res.count("probe.two_writer_threads_interleaved")
    res.count("fault.preemption_between_lines", il.switches)
    tr.ev("interleave", il.switches, tuple(il.lines))
    for i in (0, 1):
        want = bytes(models[i].data)
        if errors[i] is not None or results[i] != want:
            got = f"raised {type(errors[i]).__name__}: {errors[i]}" if errors[i] is not None else results[i].hex()
            return {"kind": "appended-bytes", "signature": "C09|concurrent-writers|appended-bytes|sanitize=False",
                    "detail": f"caller thread {i} filling its own writer while another thread filled another one got {got}; alone the "
                              f"same writes give {want.hex()} (schedule {plan['interleave'][:12]}..., {il.switches} switches)", "step": 0}
    return None


class _Tile(int):
    """An application's int subclass whose text form is not the integer's."""

    def __str__(self):
        return f"tile#{int(self)}"

    __repr__ = __str__

    def __format__(self, spec):
        return f"tile#{int(self)}"


class _Name(str):
    """An application's str subclass (no behaviour of its own)."""


def run_generated(plan, env, res, tr):
    """Sanitisation 'exactly when asked' through a generated serializer: inside <chunked> yes, after it no."""
    g = plan["generated"]
    EoWriter = importlib.import_module("eolib.data.eo_writer").EoWriter
    net = importlib.import_module("eolib.protocol._generated.net")
    obj = net.AfterChunk(inside=g["inside"], flag=g["flag"], tail=g["tail"])
    w = EoWriter()
    w.string_sanitization_mode = bool(g["entry"])
    m = WriterModel()
    m.sanitize = True
    expect = m.image("add_string", [g["inside"]]) + b"\xff"
    m.sanitize = False
    expect += m.image("add_char", [g["flag"]]) + m.image("add_string", [g["tail"]])
    net.AfterChunk.serialize(w, obj)
    got = bytes(w.to_bytearray())
    res.count("probe.generated_serializer_after_chunked")
    tr.ev("generated", got.hex())
    if got != expect:
        return {"kind": "appended-bytes", "signature": "C09|appended-bytes|generated-serializer|sanitize=False",
                "detail": f"AfterChunk(inside={g['inside']!r}, tail={g['tail']!r}).serialize wrote {got.hex()}, the declaration "
                          f"(sanitised inside <chunked>, exact image after it) prescribes {expect.hex()}", "step": 0}
    if bool(w.string_sanitization_mode) != bool(g["entry"]):
        return {"kind": "mode", "signature": "C09|mode|generated-serializer", "detail": "serialize changed the writer's mode", "step": 0}
    # a structure without a <chunked> section of its own (its constants contain y-diaeresis): sanitised exactly
    # when the mode was switched on by someone else (the caller, or a <chunked> parent)
    import inspect
    a3 = (g["inside"] + "abc")[:3]
    extra = {"mark": "\u00ffzz"} if "mark" in inspect.signature(net.InnerPlain.__init__).parameters else {}
    plain = net.InnerPlain(a=a3, b=g["flag"], **extra)
    for mode in (bool(g["entry"]), not g["entry"]):
        w = EoWriter()
        w.string_sanitization_mode = mode
        m = WriterModel()
        m.sanitize = mode
        expect = (m.image("add_fixed_string", [a3, 3, False]) + m.image("add_short", [g["flag"]])
                  + m.image("add_fixed_string", ["\u00ffzz", 3, False]) + m.image("add_fixed_string", ["z\u00ff", 2, False]))
        net.InnerPlain.serialize(w, plain)
        got = bytes(w.to_bytearray())
        res.count("probe.generated_plain_struct_in_both_modes")
        tr.ev("generated-plain", mode, got.hex())
        if got != expect:
            return {"kind": "appended-bytes", "signature": f"C09|appended-bytes|generated-serializer|sanitize={mode}",
                    "detail": f"InnerPlain(a={a3!r}).serialize into a writer with sanitisation {'on' if mode else 'off'} wrote "
                              f"{got.hex()}, the declaration prescribes {expect.hex()}", "step": 0}
    # the caller switched sanitisation on; generated code uses the writer in between (a structure with a <chunked>
    # section but no string of its own; a packet whose write() fails part-way); a string written afterwards is
    # still sanitised, because that is what the caller asked for
    srv = importlib.import_module("eolib.protocol._generated.net.server")
    for what in ("stringless-chunked-struct", "failed-packet-write"):
        w = EoWriter()
        w.string_sanitization_mode = True
        w.add_string("a\u00ff")
        m = WriterModel()
        m.sanitize = True
        expect = m.image("add_string", ["a\u00ff"])
        if what == "stringless-chunked-struct":
            net.Pair.serialize(w, net.Pair(id=g["flag"], amount=7))
            expect += m.image("add_char", [g["flag"]]) + m.image("add_short", [7]) + b"\xff"
        else:
            bad = srv.TalkPairsServerPacket(tag=300 + g["flag"], pairs=[])       # a char cannot carry it
            try:
                bad.write(w)
                failed = False
            except Exception:  # noqa
                failed = True
            if not failed:
                return {"kind": "not-refused", "signature": "C09|not-refused|generated-serializer|sanitize=True",
                        "detail": "TalkPairsServerPacket(tag>=253).write() did not fail", "step": 0}
            expect = None                 # whatever the failed write left behind is not judged here
        w.add_string("\u00ffz")
        tail = m.image("add_string", ["\u00ffz"])
        got = bytes(w.to_bytearray())
        res.count("probe.caller_mode_on_around_generated_code")
        tr.ev("generated-around", what, got.hex())
        ok = (got == expect + tail) if expect is not None else got.endswith(tail)
        expect = (expect + tail) if expect is not None else b"..." + tail
        if not ok or not w.string_sanitization_mode:
            return {"kind": "appended-bytes", "signature": "C09|appended-bytes|generated-serializer|sanitize=True",
                    "detail": f"sanitisation switched on by the caller, then {what}, then add_string('\u00ffz'): the writer holds {got.hex()} "
                              f"(mode now {bool(w.string_sanitization_mode)}), asked for was {expect.hex()} with the mode still on", "step": 0}
    # a whole packet handed to a writer the caller has switched to sanitising, through write(): every string of it is
    # sanitised, also those outside its <chunked> section (the header `h`)
    h2 = (g["inside"] + "\u00ffx")[-2:] if len(g["inside"]) % 2 else ("\u00ff" + g["tail"] + "x")[:2]
    pkt = srv.TalkTellServerPacket(h=h2, s1=g["inside"], inner=net.InnerChunked(a=g["tail"], b=g["flag"], c=9), s2=g["tail"], kind=2,
                                   kind_data=None, k=g["flag"] * 3, s3="z")
    for through_write in (True, False):
        w = EoWriter()
        w.string_sanitization_mode = True
        m = WriterModel()
        m.sanitize = True
        expect = (m.image("add_fixed_string", [h2, 2, False]) + m.image("add_string", [g["inside"]]) + b"\xff"
                  + m.image("add_string", [g["tail"]]) + b"\xff" + m.image("add_short", [g["flag"]]) + m.image("add_char", [9]) + b"\xff"
                  + m.image("add_fixed_string", ["\u00ffes", 3, False]) + m.image("add_string", [g["tail"]]) + b"\xff"
                  + m.image("add_char", [2]) + b"\xff" + m.image("add_three", [g["flag"] * 3]) + m.image("add_encoded_string", ["z"]))
        if through_write:
            pkt.write(w)
        else:
            srv.TalkTellServerPacket.serialize(w, pkt)
        got = bytes(w.to_bytearray())
        res.count("probe.packet_into_sanitising_writer")
        tr.ev("generated-packet-mode-on", through_write, got.hex())
        if got != expect or not w.string_sanitization_mode:
            return {"kind": "appended-bytes", "signature": "C09|appended-bytes|generated-serializer|sanitize=True",
                    "detail": f"TalkTellServerPacket(h={h2!r}, ...) {'written with write()' if through_write else 'serialized'} into a writer the "
                              f"caller switched to sanitising gave {got.hex()} (mode now {bool(w.string_sanitization_mode)}); asked for was {expect.hex()}", "step": 0}
    # one enum referred to with and without an underlying-type override: each field is written with ITS width
    ks = [g["flag"] % 253, (g["flag"] * 251) % 64009, (g["flag"] * 64007 + 5) % (253 ** 3), (g["flag"] // 3) % 253]
    wd = net.Widths(k1=net.Kind(ks[0]), k2=net.Kind(ks[1]), k3=net.Kind(ks[2]), k4=net.Kind(ks[3]))
    w = EoWriter()
    m = WriterModel()
    expect = (m.image("add_char", [ks[0]]) + m.image("add_short", [ks[1]]) + m.image("add_three", [ks[2]])
              + m.image("add_char", [ks[3]]))
    try:
        net.Widths.serialize(w, wd)
        got = bytes(w.to_bytearray())
    except Exception as e:  # noqa
        got = f"raised {type(e).__name__}: {e}"
    res.count("probe.generated_enum_width_overrides")
    tr.ev("generated-widths", got.hex() if isinstance(got, bytes) else got)
    if got != expect:
        return {"kind": "appended-bytes", "signature": "C09|appended-bytes|generated-serializer|widths",
                "detail": f"Widths(k1..k4={ks}) declared as Kind, Kind:short, Kind:three, Kind: serialize gave "
                          f"{got.hex() if isinstance(got, bytes) else got}, the declared widths prescribe {expect.hex()}", "step": 0}
    return None


def execute(plan, env):
    from ..core import load_fixed_tree
    from .c06_chunks import c06_tree
    broken = load_fixed_tree(env, "c06_loaded", c06_tree, "C09")
    if broken:
        res = Result()
        res.violation = broken
        res.digest = Trace().digest()
        return res
    EoWriter = importlib.import_module("eolib.data.eo_writer").EoWriter
    res = Result()
    tr = Trace(keep=env.keep_trace)
    if plan.get("generated"):
        try:
            v = run_generated(plan, env, res, tr)
        except Exception as e:  # noqa  (every object handed to a generated serializer here is a valid one)
            v = {"kind": "spurious-refusal", "signature": "C09|spurious-refusal|generated-serializer|sanitize=False",
                 "detail": f"a generated serializer raised on a valid object: {type(e).__name__}: {e}", "step": 0}
        if v:
            res.violation = v
            res.digest = tr.digest()
            return res
    w = EoWriter()
    m = WriterModel()
    toggled_last = False
    seen_modes = {}

    def fail(kind, op, detail, step):
        res.violation = {"kind": kind, "signature": f"C09|{kind}|{op}|sanitize={m.sanitize}",
                         "detail": f"step {step}: {detail}", "step": step}

    writers = [(w, m), (EoWriter(), WriterModel())]
    for step, op in enumerate(plan["ops"]):
        name, args = op[0], op[1:]
        if name == "switch_writer":
            # a second writer of the same process takes over (state must be per writer)
            writers.reverse()
            w, m = writers[0]
            res.count("probe.second_writer_interleaved")
            tr.ev(step, name)
            continue
        if name == "set_mode":
            w.string_sanitization_mode = bool(args[0])
            m.sanitize = bool(args[0])
            toggled_last = True
            tr.ev(step, name, args[0])
            if bool(w.string_sanitization_mode) != m.sanitize:
                fail("mode", name, "mode getter disagrees with the value just set", step)
                break
            continue
        if name == "observe":
            snap = w.to_bytearray()
            if bytes(snap) != bytes(m.data) or len(w) != len(m.data):
                fail("observe", name, f"contents {bytes(snap).hex()} != model {bytes(m.data).hex()}", step)
                break
            snap += b"\x00\x01"
            if len(snap):
                snap[0] ^= 0x55
            res.count("probe.to_bytearray_is_copy")
            if bytes(w.to_bytearray()) != bytes(m.data):
                fail("aliasing", name, "mutating the result of to_bytearray() changed the writer", step)
                break
            tr.ev(step, name, len(m.data))
            continue
        call_args = list(args)
        handed_over = None
        if name == "add_bytes":
            call_args = [bytes(args[0])]
            if step % 3 == 1:
                # bytes-like and mutable (e.g. another writer's to_bytearray()): the caller keeps using its array
                handed_over = bytearray(args[0])
                call_args = [handed_over]
        before = bytes(w.to_bytearray())
        try:
            expect = m.image(name, call_args)
        except Rejected:
            expect = None
        has_y = name in STR_OPS and "ÿ" in args[0]
        if name in STR_OPS:
            seen_modes.setdefault(args[0], set()).add(m.sanitize)
            if len(seen_modes[args[0]]) == 2:
                res.count("probe.same_string_in_both_modes")
        if name in STR_OPS:
            if has_y:
                res.count("probe.y_diaeresis_sanitized" if m.sanitize else "probe.y_diaeresis_unsanitized")
            if len(args) > 2 and args[2] and len(args[0]) == args[1]:
                res.count("probe.perfect_fit_padded")
        relation = ""
        if len(args) > 2:
            relation = "short" if len(args[0]) < args[1] else ("fit" if len(args[0]) == args[1] else "long")
            relation += "P" if args[2] else "F"
        res.keys.add(f"{name}|{'ok' if expect is not None else 'refuse'}|{int(m.sanitize)}|{int(len(m.data) == 0)}|{int(has_y)}|{relation}")
        exc = None
        if step % 9 == 4:
            # the same values in another dress: bool / int subclass with its own text form / plain str subclass
            dressed = [(_Tile(a) if a not in (0, 1) else bool(a)) if type(a) is int else (_Name(a) if type(a) is str else a)
                       for a in call_args]
            if any(type(a) is not type(b) for a, b in zip(dressed, call_args)):
                res.count("probe.argument_of_a_subclass_type")
            call_args = dressed
        try:
            if step % 5 == 2 and name in ("add_fixed_string", "add_fixed_encoded_string"):
                getattr(w, name)(string=call_args[0], length=call_args[1], padded=call_args[2])
            elif step % 5 == 2 and name in ("add_string", "add_encoded_string"):
                getattr(w, name)(string=call_args[0])
            elif step % 5 == 2 and name in ("add_char", "add_short", "add_three", "add_int"):
                getattr(w, name)(number=call_args[0])
            else:
                getattr(w, name)(*call_args)
        except Exception as e:
            exc = type(e).__name__
        after = bytes(w.to_bytearray())
        if handed_over is not None and exc is None:
            res.count("probe.bytearray_handed_to_add_bytes")
            keep = bytes(handed_over)
            w.add_byte(0x41)                      # the writer goes on ...
            if bytes(handed_over) != keep:
                fail("aliasing", name, "a later write changed the bytearray that had been handed to add_bytes", step)
                break
            handed_over += b"\x00\x01"           # ... and so does the caller, with its own array
            if handed_over:
                handed_over[0] ^= 0x55
            if bytes(w.to_bytearray()) != after + b"\x41":
                fail("aliasing", name, "changing the bytearray that had been handed to add_bytes changed the writer", step)
                break
        tr.ev(step, name, repr(args), exc, after[len(before):].hex())
        if expect is None:
            res.count("fault.refused_write")
            if before:
                res.count("probe.refusal_on_nonempty_buffer")
            if toggled_last:
                res.count("probe.refusal_right_after_mode_toggle")
            if name in INT_OPS and args[0] > 253 ** 4:
                res.count("probe.refusal_far_beyond_limit")
            if len(args) > 2 and len(args[0]) == args[1] + 1:
                res.count("probe.refusal_string_one_too_long")
            if len(args) > 2 and not args[2] and len(args[0]) == args[1] - 1:
                res.count("probe.refusal_string_one_too_short")
            if exc != "ValueError":
                fail("not-refused", name, f"{name}{tuple(args)} must raise ValueError, got {exc}; "
                     f"appended {after[len(before):].hex()!r}", step)
                break
            if after != before:
                fail("not-atomic", name, f"refused {name}{tuple(args)} changed the contents: "
                     f"{before.hex()} -> {after.hex()}", step)
                break
        else:
            if exc is not None:
                fail("spurious-refusal", name, f"valid {name}{tuple(args)} raised {exc}", step)
                break
            if after[: len(before)] != before:
                fail("earlier-bytes-changed", name, f"{name}{tuple(args)} altered earlier output", step)
                break
            got = after[len(before):]
            if len(got) != len(expect):
                fail("appended-length", name, f"{name}{tuple(args)} appended {len(got)} bytes "
                     f"({got.hex()}), declared {len(expect)}", step)
                break
            if got != expect:
                fail("appended-bytes", name, f"{name}{tuple(args)} appended {got.hex()}, "
                     f"format prescribes {expect.hex()}", step)
                break
            m.data += expect
            if handed_over is not None:
                m.data += b"\x41"            # the extra byte written while the hand-over was observed
        if len(w) != len(m.data):
            fail("len", name, f"len(writer)={len(w)} model {len(m.data)}", step)
            break
        if bool(w.string_sanitization_mode) != m.sanitize:
            fail("mode-changed-by-write", name, "a write changed the sanitisation mode", step)
            break
        toggled_last = False
    if plan.get("interleave") and res.violation is None:
        v = concurrent_writers(plan, EoWriter, res, tr)
        if v:
            res.violation = v
    res.digest = tr.digest()
    res.steps = tr.steps
    res.sample = {"first_ops": [repr(o) for o in plan["ops"][:8]], "n_ops": len(plan["ops"])}
    return res


LEVEL_TEXT = (
    "Seeded search over writer histories in which refused writes (the mid-history failure) and sanitisation "
    "toggles land at arbitrary points; after every step the real buffer must equal the model's: refused writes "
    "raise ValueError and change nothing, accepted writes append exactly the prescribed bytes. Sampling, not proof."
)
LEVEL_NOTE = (
    "Trusted: writer model and EO codec model (sim/models), Python's cp1252 codec. Integers >= 0 and str strings only."
)
TECHNIQUE = "deterministic seeded history simulation with refused writes as injected failures, vs. reference model; two caller threads under a seeded line-level scheduler"
