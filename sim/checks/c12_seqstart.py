"""C12 - Generated sequence starts are always transmittable and reconstructible.

The simulator owns the random source (SimRandom behind eolib.packet.sequence_start.random and
the global random functions).  Plans 0..SWEEP_PLANS-1 of every run sweep the *complete*
outcome space of the three generate() functions (ranges are discovered from the code's own
randrange calls at run time); later plans are seeded in-flow sessions with edge-biased draws.
"""

import importlib

from ..core import Result, Trace
from ..seams import SimRandom, owned_random, HarnessError

ID = "C12"
LEVEL = "exploration"
BATCH = 8
DOUBLE_EVERY = 53
BUDGET = {"quick": 12.0, "thorough": 120.0}

INIT_SLICE = 32
PING_SLICE = 8
INDEX_SPACE = 2048  # first-draw indices covered (the code's own range, 1757 today, is discovered at run time)
N_INIT = INDEX_SPACE // INIT_SLICE
N_PING = INDEX_SPACE // PING_SLICE
SWEEP_PLANS = N_INIT + N_PING + 1

RULE = (
    "one evaluation = one complete outcome of one generate() call (every random draw scripted by the "
    "simulator), pushed through EoWriter -> wire bytes -> EoReader -> from_*values(); the first "
    f"{SWEEP_PLANS} plans enumerate the whole outcome space (first draw x every admissible second draw, "
    "ranges discovered from the code's randrange calls), later plans are edge-biased in-flow sessions; "
    "distinct = distinct (generator, value, wire components) outcomes; all are non-trivial"
)
ASSUMPTIONS = [
    "documented ranges as in the docstrings and the property: INIT/PING value 0..1757, ACCOUNT_REPLY 0..240; INIT seq1/seq2 0..252; PING seq1 a short, seq2 a char",
    "SimRandom is a faithful stub of random.Random (raises ValueError on empty ranges)",
    "a generate() that consults no draw from the owned source is a harness error, not a pass",
]
COMPONENTS = {
    "real": ["eolib.packet.sequence_start (generate, from_*_values)", "EoWriter/EoReader/number codec for the wire trip",
             "generated InitInit / ConnectionPlayer / AccountReply server packets (real generator, documented layout) for a sample of outcomes"],
    "stub_or_harness": ["SimRandom (scripted random source)", "outcome-space enumerator"],
}
PROBES = ["start_travels_as_reply_code", "two_generating_threads_interleaved", "refused_write_elsewhere_before_trip", "switch_field_given_as_plain_int", "components_through_generated_packet", "init_seq2_at_252", "init_seq2_at_0", "init_single_choice_range", "ping_seq2_at_251", "ping_value_max",
          "account_value_239", "init_value_0", "init_value_max"]
FAULT_KINDS = ["scripted_draw", "preemption_between_lines"]
EXHAUSTIVE = False  # set in coverage_extra when the sweep completed


def generate(streams, tier):
    i = None  # filled by plan index in execute through seed_index; plans are index-driven
    rng = streams.get("plan")
    plan = {"session_seed": rng.randrange(1 << 30), "session_len": rng.randrange(1, 30)}
    if rng.random() < 0.3:
        # two caller threads generate starts at the same time (a server accepting two connections): sim/interleave.py
        plan["interleave"] = [rng.randrange(1, 7) for _ in range(rng.randrange(4, 40))]
    return plan


def concurrent_generates(ctx, plan):
    """Two caller threads, each with its own scripted draws, generate a start of the same kind at the same time under a
    scheduled interleaving; each must get the start it gets alone with those draws."""
    import random
    from ..interleave import Interleaver, InterleaveStall
    from ..seams import PerCallerRandom
    rng = random.Random(plan["session_seed"] ^ 0xC12)
    gen = rng.choice(["init", "init", "ping", "account"])
    cls = {"init": ctx.mod.InitSequenceStart, "ping": ctx.mod.PingSequenceStart, "account": ctx.mod.AccountReplySequenceStart}[gen]
    scripts = [[rng.choice([0, 0.25, 0.5, 0.999999, rng.random()]) for _ in range(2)] for _ in range(2)]

    def describe(start):
        return (start.value, getattr(start, "seq1", None), getattr(start, "seq2", None))

    alone = []
    for sc in scripts:
        with owned_random(ctx.mod, SimRandom(sc)):
            alone.append(describe(cls.generate()))
    sim = PerCallerRandom({"sim-caller-0": scripts[0], "sim-caller-1": scripts[1]})
    il = Interleaver(plan["interleave"], lambda filename: "eolib-verif-" in filename)
    with owned_random(ctx.mod, sim):
        try:
            results, errors = il.run(lambda: describe(cls.generate()), lambda: describe(cls.generate()))
        except InterleaveStall as e:
            ctx.fail("concurrent-generate", gen, f"two caller threads generating {gen} starts did not both finish: {e}")
            return
    ctx.res.count("probe.two_generating_threads_interleaved")
    ctx.res.count("fault.preemption_between_lines", il.switches)
    ctx.tr.ev("interleave", gen, il.switches, tuple(il.lines))
    for i in (0, 1):
        if errors[i] is not None or results[i] != alone[i]:
            got = f"raised {type(errors[i]).__name__}: {errors[i]}" if errors[i] is not None else results[i]
            ctx.fail("concurrent-generate", gen, f"caller thread {i} generating a {gen} start with draws {scripts[i]} while another thread "
                                                 f"generated one got (value, seq1, seq2) = {got}; alone the same draws give {alone[i]} "
                                                 f"(schedule {plan['interleave'][:12]}..., {il.switches} switches)")
            return


def _slice_for(index):
    if index < N_INIT:
        return "init", index * INIT_SLICE, (index + 1) * INIT_SLICE
    index -= N_INIT
    if index < N_PING:
        return "ping", index * PING_SLICE, (index + 1) * PING_SLICE
    return "account", 0, INDEX_SPACE


_HDR = '<?xml version="1.0" encoding="UTF-8"?>\n'


def c12_tree():
    """The three server packets that carry sequence starts, laid out as the protocol documents them
    (INIT: two raw bytes; CONNECTION_PLAYER: a short and a char; ACCOUNT_REPLY: a char after the reply code)."""
    from ..workspace import skeleton_tree
    t = skeleton_tree()
    t["net/protocol.xml"] = _HDR + """<protocol>
    <enum name="PacketFamily" type="byte"><value name="Connection">1</value><value name="Account">2</value><value name="Init">255</value></enum>
    <enum name="PacketAction" type="byte"><value name="Player">1</value><value name="Reply">2</value><value name="Init">255</value></enum>
    <enum name="InitReply" type="byte"><value name="OutOfDate">1</value><value name="Ok">2</value><value name="Banned">3</value></enum>
    <enum name="AccountReply" type="short"><value name="Exists">1</value><value name="NotApproved">2</value><value name="Created">3</value></enum>
</protocol>
"""
    t["net/server/protocol.xml"] = _HDR + """<protocol>
    <packet family="Init" action="Init">
        <field name="reply_code" type="InitReply"/>
        <switch field="reply_code">
            <case value="OutOfDate">
                <field name="version" type="char"/>
            </case>
            <case value="Ok">
                <field name="seq1" type="byte"/>
                <field name="seq2" type="byte"/>
                <field name="player_id" type="short"/>
            </case>
            <case value="Banned">
                <field name="ban_type" type="byte"/>
            </case>
        </switch>
    </packet>
    <packet family="Connection" action="Player">
        <field name="seq1" type="short"/>
        <field name="seq2" type="char"/>
    </packet>
    <packet family="Account" action="Reply">
        <field name="reply_code" type="AccountReply"/>
        <switch field="reply_code">
            <case value="Exists"><field type="string">NO</field></case>
            <case value="NotApproved"><field type="string">NO</field></case>
            <case value="Created"><field type="string">GO</field></case>
            <case default="true">
                <field name="sequence_start" type="char"/>
                <field type="string">OK</field>
            </case>
        </switch>
    </packet>
</protocol>
"""
    return t


class _Ctx:
    def __init__(self, env, res, tr):
        from ..core import load_fixed_tree
        self.broken = load_fixed_tree(env, "c12_loaded", c12_tree, "C12")
        if self.broken:
            return
        self.srv = importlib.import_module("eolib.protocol._generated.net.server")
        self.net = importlib.import_module("eolib.protocol._generated.net")
        self.mod = importlib.import_module("eolib.packet.sequence_start")
        self.W = importlib.import_module("eolib.data.eo_writer").EoWriter
        self.R = importlib.import_module("eolib.data.eo_reader").EoReader
        self.res = res
        self.tr = tr

    def fail(self, kind, gen, detail):
        self.res.violation = {"kind": kind, "signature": f"C12|{kind}|{gen}", "detail": detail, "step": self.tr.steps}

    def packet_trip(self, gen, comps):
        """The components travel in the generated server packet: its bytes must be the documented wire format and
        the peer's generated deserializer must hand the same components back.  Returns them (or None after fail)."""
        from ..models.codec_model import encode_number
        self.res.count("probe.components_through_generated_packet")
        try:
            if gen == "init":
                # as documented: the components travel in the case of reply code Ok
                P = self.srv.InitInitServerPacket
                data = P.ReplyCodeDataOk(seq1=comps[0], seq2=comps[1], player_id=777)
                pkt = None
                if (comps[0] + comps[1]) % 2:
                    # the application names the reply code by its number (the enum members ARE integers); where the
                    # constructor refuses that, the member is passed after all
                    try:
                        pkt = P(reply_code=2, reply_code_data=data)
                        self.res.count("probe.switch_field_given_as_plain_int")
                    except (TypeError, ValueError):
                        pkt = None
                if pkt is None:
                    pkt = P(reply_code=self.net.InitReply(2), reply_code_data=data)
                want = bytes([2, comps[0], comps[1]]) + encode_number(777, 2)
            elif gen == "ping":
                pkt = self.srv.ConnectionPlayerServerPacket(seq1=comps[0], seq2=comps[1])
                want = encode_number(comps[0], 2) + encode_number(comps[1], 1)
            else:
                # as documented: every declared reply code has its own case, the start travels in the default case
                P = self.srv.AccountReplyServerPacket
                # ... or, as in the real protocol files, AS the reply code itself (any number that is not a declared
                # code): the peer then hands `packet.reply_code` - an unrecognised value of the enum - to from_value
                as_code = comps[0] > 3 and comps[0] % 2 == 1
                if as_code:
                    self.res.count("probe.start_travels_as_reply_code")
                code = comps[0] if as_code else 1000
                pkt = P(reply_code=self.net.AccountReply(code),
                        reply_code_data=P.ReplyCodeDataDefault(sequence_start=comps[0]))
                want = encode_number(code, 2) + encode_number(comps[0], 1) + b"OK"
            w = self.W()
            pkt.write(w)
            got = bytes(w.to_bytearray())
            if got != want:
                self.fail("wire-trip", gen, f"{type(pkt).__name__} carrying {comps} serialized to {got.hex()}, the documented "
                                            f"layout gives {want.hex()}")
                return None
            back = type(pkt).deserialize(self.R(want))
            out = ((back.reply_code_data.seq1, back.reply_code_data.seq2) if gen == "init" else
                   (back.seq1, back.seq2) if gen == "ping" else
                   (back.reply_code,) if as_code else (back.reply_code_data.sequence_start,))
        except Exception as e:  # noqa
            self.fail("wire-trip", gen, f"{gen} components {comps} through the generated packet: {type(e).__name__}: {e}")
            return None
        if tuple(out) != tuple(comps):
            self.fail("wire-trip", gen, f"{type(pkt).__name__} carrying {comps}: the peer's deserializer read {tuple(out)} "
                                        f"from {want.hex()}")
            return None
        return out

    def one(self, gen, script):
        """Run one generate() under `script`; returns the draw log (or None after a violation)."""
        sim = SimRandom(script)
        cls = {"init": self.mod.InitSequenceStart, "ping": self.mod.PingSequenceStart,
               "account": self.mod.AccountReplySequenceStart}[gen]
        with owned_random(self.mod, sim):
            try:
                start = cls.generate()
                exc = None
            except BaseException as e:  # noqa
                start, exc = None, e
        log = list(sim.log)
        self.res.count("fault.scripted_draw", len(log))
        from ..seams import DrawLimit
        if isinstance(exc, DrawLimit):
            self.fail("generate-does-not-return", gen, f"{gen}.generate() kept drawing from the random source ({len(log)} draws, "
                                                       f"first {log[:4]}): whatever the source returns, generation must return a start")
            return None
        if exc is not None:
            self.fail("generate-raised", gen, f"{gen}.generate() raised {type(exc).__name__}: {exc} with draws {log}")
            return None
        if not log:
            raise HarnessError(f"{gen}.generate() consulted no draw of the owned random source")
        value = start.value
        hi = 240 if gen == "account" else 1757
        self.tr.ev(gen, tuple(log), value)
        if not isinstance(value, int) or not (0 <= value <= hi):
            self.fail("value-range", gen, f"{gen} start value {value!r} outside documented 0..{hi}; draws {log}")
            return None
        if value % 5 == 0:
            # elsewhere in the same process a writer has just (rightly) refused a number that does not fit
            for bad, meth in ((253 + value, "add_char"), (64009 + value, "add_short")):
                try:
                    getattr(self.W(), meth)(bad)
                except ValueError:
                    pass
            self.res.count("probe.refused_write_elsewhere_before_trip")
        w = self.W()
        try:
            if gen == "init":
                s1, s2 = start.seq1, start.seq2
                if not (0 <= s1 <= 252 and 0 <= s2 <= 252):
                    self.fail("component-range", gen, f"INIT value {value}: seq1={s1} seq2={s2} not both in 0..252; draws {log}")
                    return None
                w.add_char(s1); w.add_char(s2); w.add_byte(s1); w.add_byte(s2)
                r = self.R(bytes(w.to_bytearray()))
                a, b, c, d = r.get_char(), r.get_char(), r.get_byte(), r.get_byte()
                if (a, b, c, d) != (s1, s2, s1, s2):
                    self.fail("wire-trip", gen, f"INIT seq1={s1} seq2={s2} arrived as {a},{b} (char) / {c},{d} (byte)")
                    return None
                back = (self.mod.InitSequenceStart.from_init_values(seq1=a, seq2=b) if (a + b) % 3 == 0
                        else self.mod.InitSequenceStart.from_init_values(a, b))
                comps = (s1, s2)
                if s2 == 252: self.res.count("probe.init_seq2_at_252")
                if s2 == 0: self.res.count("probe.init_seq2_at_0")
                if len(log) > 1 and log[1][1] - log[1][0] == 1: self.res.count("probe.init_single_choice_range")
                if value == 0: self.res.count("probe.init_value_0")
                if value == 1756: self.res.count("probe.init_value_max")
            elif gen == "ping":
                s1, s2 = start.seq1, start.seq2
                if not (0 <= s1 < 253 * 253 and 0 <= s2 <= 252):
                    self.fail("component-range", gen, f"PING value {value}: seq1={s1} (short) seq2={s2} (char) do not fit; draws {log}")
                    return None
                w.add_short(s1); w.add_char(s2)
                r = self.R(bytes(w.to_bytearray()))
                a, b = r.get_short(), r.get_char()
                if (a, b) != (s1, s2):
                    self.fail("wire-trip", gen, f"PING seq1={s1} seq2={s2} arrived as {a},{b}")
                    return None
                back = (self.mod.PingSequenceStart.from_ping_values(seq1=a, seq2=b) if (a + b) % 3 == 0
                        else self.mod.PingSequenceStart.from_ping_values(a, b))
                comps = (s1, s2)
                if s2 == 251: self.res.count("probe.ping_seq2_at_251")
                if value == 1756: self.res.count("probe.ping_value_max")
            else:
                if not (0 <= value <= 252):
                    self.fail("component-range", gen, f"ACCOUNT_REPLY value {value} does not fit a char")
                    return None
                w.add_char(value)
                a = self.R(bytes(w.to_bytearray())).get_char()
                back = (self.mod.AccountReplySequenceStart.from_value(value=a) if a % 3 == 0
                        else self.mod.AccountReplySequenceStart.from_value(a))
                comps = (value,)
                if value == 239: self.res.count("probe.account_value_239")
        except ValueError as e:
            self.fail("not-transmittable", gen, f"{gen} value {value}: writer refused a component: {e}; draws {log}")
            return None
        if (sum(comps) + 7 * comps[-1]) % 23 == 0 or value in (0, 1, 239, 240, 252, 253, 1756, 1757) or comps[-1] in (0, 251, 252):
            out = self.packet_trip(gen, comps)
            if out is None:
                return None
            try:
                back2 = (self.mod.InitSequenceStart.from_init_values(*out) if gen == "init" else
                         self.mod.PingSequenceStart.from_ping_values(*out) if gen == "ping" else
                         self.mod.AccountReplySequenceStart.from_value(*out))
            except Exception as e:  # noqa
                self.fail("reconstruction", gen, f"{gen} value {value}: the components as the peer's generated deserializer hands "
                                                 f"them over ({out!r}) were refused by the from-values function: {type(e).__name__}: {e}")
                return None
            if back2.value != value:
                self.fail("reconstruction", gen, f"{gen} value {value} components {comps} through the generated packet "
                                                 f"reconstructed as {back2.value}")
                return None
        if back.value != value:
            self.fail("reconstruction", gen, f"{gen} value {value} components {comps} reconstructed as {back.value}")
            return None
        self.res.keys.add(f"{gen}|{value}|{comps}")
        self.res.evaluations += 1
        return log


def _sweep(ctx, gen, lo_idx, hi_idx):
    """All outcomes whose first draw has index lo_idx..hi_idx-1 (clipped to the code's own range)."""
    probe = ctx.one(gen, [0])
    if probe is None:
        return
    width0 = probe[0][1] - probe[0][0]
    for i in range(lo_idx, min(hi_idx, width0)):
        if i == 0 and len(probe) == 1:
            continue  # already evaluated by the probe
        log = ctx.one(gen, [i, 0]) if not (i == 0) else probe
        if log is None:
            return
        if len(log) >= 2:
            width1 = log[1][1] - log[1][0]
            for j in range(1, width1):
                log2 = ctx.one(gen, [i, j])
                if log2 is None:
                    return
                if len(log2) > 2:
                    raise HarnessError("more than two draws per generate(): enumerator needs another level")


def execute(plan, env):
    res = Result()
    res.evaluations = 0
    tr = Trace(keep=env.keep_trace)
    ctx = _Ctx(env, res, tr)
    if ctx.broken:
        res.violation = ctx.broken
        res.digest = tr.digest()
        res.evaluations = 1
        return res
    index = plan.get("seed_index", 0)
    if "outcome" in plan:  # minimised replay: one scripted outcome
        ctx.one(plan["outcome"][0], plan["outcome"][1])
    elif index < SWEEP_PLANS:
        gen, lo, hi = _slice_for(index)
        _sweep(ctx, gen, lo, hi)
        res.count("sweep_plans")
    else:
        import random
        rng = random.Random(plan["session_seed"])
        for _ in range(plan["session_len"]):
            gen = rng.choice(["init", "ping", "account"])
            script = [rng.choice([0, 1, 0.5, 0.999999, rng.random()]) for _ in range(2)]
            if ctx.one(gen, script) is None:
                break
        if plan.get("interleave") and res.violation is None:
            concurrent_generates(ctx, plan)
    if res.violation and "outcome" not in plan:
        # remember the exact scripted outcome for the minimiser
        last = tr.events[-1] if tr.keep and tr.events else None
    res.digest = tr.digest()
    res.steps = tr.steps
    res.sample = {"plan_index": index, "kind": "sweep slice %s[%d:%d]" % _slice_for(index) if index < SWEEP_PLANS else "in-flow session",
                  "evaluations": res.evaluations}
    if res.evaluations == 0:
        res.evaluations = 1
    return res


def shrink(plan, still_fails, budget):
    """Reduce a failing sweep slice / session to the single scripted outcome that fails."""
    index = plan.get("seed_index", 0)
    cands = []
    if index < SWEEP_PLANS:
        gen, lo, hi = _slice_for(index)
        for i in range(lo, hi):
            for j in range(0, 300):
                cands.append((gen, [i, j]))
    else:
        import random
        rng = random.Random(plan["session_seed"])
        for _ in range(plan["session_len"]):
            gen = rng.choice(["init", "ping", "account"])
            cands.append((gen, [rng.choice([0, 1, 0.5, 0.999999, rng.random()]) for _ in range(2)]))
    for gen, script in cands:
        cand = {"outcome": [gen, script], "seed_index": index, "run_seed": plan.get("run_seed")}
        if still_fails(cand):
            return cand
    return plan


SHRINK_BUDGET = 10**6


def coverage_extra(agg):
    done = agg["counters"].get("sweep_plans", 0) >= SWEEP_PLANS
    return {"exhaustive": bool(done),
            "outcome_space": "complete sweep of all generate() outcomes finished" if done else
            "sweep incomplete in this run (budget too small); not exhaustive"}


LEVEL_TEXT = (
    "The random source is behind the simulator's seam and every outcome of every draw of the three generate() "
    "functions is enumerated (about 5*10^5 outcomes, a finite space swept completely in both tiers), each pushed "
    "through the real writer/reader and from_*values(); seeded in-flow sessions with edge-biased draws follow. "
    "For this finite space the sweep is complete; the level is stated as exploration because the deciding step is "
    "the simulator's scripted schedule of draws."
)
LEVEL_NOTE = "Trusted: SimRandom as a faithful stand-in for random.Random; documented ranges taken from docstrings and the property text."
TECHNIQUE = "random source behind a simulator-owned seam; complete sweep of draw outcomes plus seeded edge-biased sessions"
