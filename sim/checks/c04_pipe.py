"""C04 - EoWriter output read back by EoReader returns the values written.

The fault-free configuration of the writer->reader pipe (C06 and C09 are its faulty ones):
a seeded history of typed writes on a real EoWriter, then the matching get_* sequence on a
real EoReader over the writer's output.
"""

import importlib

from ..core import Result, Trace
from ..gen.values import gen_string, gen_int_in_range, StringPool

ID = "C04"
LEVEL = "exploration"
BATCH = 400
BUDGET = {"quick": 25.0, "thorough": 600.0}
RULE = (
    "one evaluation = one seeded history of 1-40 typed writes (sanitisation off; some refused, the output taken "
    "by the receiver at some points in between) read back with the matching "
    "get_* calls; distinct = distinct (operation-kind sequence truncated to 3, string-class mix) shapes; "
    "non-trivial = at least two writes"
)
ASSUMPTIONS = [
    "expected read-back value of a string is its cp1252 image (encode with 'replace', decode with 'replace')",
    "characters the format cannot carry are not generated where they are lossy: y-diaeresis in padded strings, '~' in encoded strings",
    "fault-free configuration: no fault or nondeterminism is involved, the simulation is seeded history exploration",
]
COMPONENTS = {
    "real": ["eolib.data.EoWriter", "eolib.data.EoReader", "number and string codecs"],
    "stub_or_harness": ["history generator", "expected-value computation"],
}
PROBES = ["raw_bytes_result_looked_at_again", "scratch_bytearray_reused_by_sender", "mode_toggled_back_between_writes", "output_taken_mid_history", "refused_write_in_history", "very_long_padding", "same_string_written_again", "perfect_fit_padded", "empty_string", "non_cp1252_character", "int_at_max", "trailing_unbounded_string",
          "y_diaeresis_in_unpadded_string", "empty_padded_string"]

INT_KINDS = ["char", "short", "three", "int"]
WRITE = {
    "byte": "add_byte", "char": "add_char", "short": "add_short", "three": "add_three", "int": "add_int",
}


def generate(streams, tier):
    rng = streams.get("plan")
    vr = streams.get("values")
    n = rng.randrange(1, 41)
    ops = []
    pool = StringPool(vr)
    for i in range(n):
        r = rng.random()
        if rng.random() < 0.04:
            # a write that must be refused (and leave nothing behind); the history goes on afterwards
            ops.append(["refused", pool.get(vr, min_len=2), rng.choice(["fixed", "fixed_encoded", "padded"])])
            continue
        if rng.random() < 0.03:
            # a number the writer must refuse (nothing of it may surface in later writes)
            k = rng.choice(INT_KINDS)
            lim = {"char": 253, "short": 253 ** 2, "three": 253 ** 3, "int": 253 ** 4}[k]
            ops.append(["refused_int", k, lim + rng.choice([0, 1, 252, lim - 1, vr.randrange(0, lim)])])
            continue
        if rng.random() < 0.04:
            # sanitisation is switched on and off again with nothing written in between (what every generated
            # serializer with a <chunked> section does to the writer it is given): no effect on later writes
            ops.append(["toggle", rng.choice(["on-off", "on-off", "on-off-twice", "off"])])
            continue
        if rng.random() < 0.05:
            # the receiver takes what has been written so far (incremental delivery); the writer is used further
            ops.append(["flush", rng.choice(["keep", "reader", "mutate"])])
            continue
        if r < 0.08:
            ops.append(["byte", vr.randrange(256)])
        elif r < 0.13:
            ops.append(["bytes", [vr.randrange(256) for _ in range(vr.randrange(0, 7))]])
        elif r < 0.5:
            k = rng.choice(INT_KINDS)
            ops.append([k, gen_int_in_range(vr, k)])
        else:
            enc = rng.random() < 0.5
            padded = rng.random() < 0.5
            s = pool.get(vr, allow_y=not padded, allow_tilde=not enc)
            length = len(s) + (rng.choice([0, 0, 1, 2, 7, 7, 253, 300, 1000]) if padded else 0)
            ops.append(["fixed_encoded" if enc else "fixed", s, length, padded])
    if rng.random() < 0.5:
        enc = rng.random() < 0.5
        ops.append(["tail_encoded" if enc else "tail", pool.get(vr, allow_tilde=not enc)])
    return {"ops": ops}


def image(s):
    return s.encode("cp1252", "replace").decode("cp1252", "replace")


def execute(plan, env):
    env.skeleton()
    EoWriter = importlib.import_module("eolib.data.eo_writer").EoWriter
    EoReader = importlib.import_module("eolib.data.eo_reader").EoReader
    res = Result()
    tr = Trace(keep=env.keep_trace)
    ops = plan["ops"]
    # an unbounded string is only readable as the last item
    ops = [o for i, o in enumerate(ops) if not (o[0] in ("tail", "tail_encoded") and i != len(ops) - 1)]

    def fail(kind, op, detail, step):
        res.violation = {"kind": kind, "signature": f"C04|{kind}|{op}", "detail": detail, "step": step}
        res.digest = tr.digest()
        res.steps = tr.steps
        return res

    w = EoWriter()
    declared = 0
    taken = []          # (the object handed out, its content when it was handed out, a reader kept open on it or None)
    for step, o in enumerate(ops):
        k = o[0]
        if k == "toggle":
            for _ in range(2 if o[1] == "on-off-twice" else 1):
                if o[1] != "off":
                    w.string_sanitization_mode = True
                w.string_sanitization_mode = False
            res.count("probe.mode_toggled_back_between_writes")
            continue
        if k == "refused_int":
            try:
                getattr(w if step % 2 else EoWriter(), "add_" + o[1])(o[2])     # on this writer or on another one
                return fail("not-refused", k, f"step {step}: add_{o[1]}({o[2]}) was accepted", step)
            except ValueError:
                res.count("probe.refused_write_in_history")
            continue
        if k == "flush":
            try:
                snap = w.to_bytearray()
            except Exception as e:
                return fail("write-raised", k, f"step {step}: to_bytearray raised {type(e).__name__}: {e}", step)
            if len(snap) != declared:
                return fail("output-length", "flush", f"step {step}: output has {len(snap)} bytes, declared sizes sum to {declared}", step)
            keep = bytes(snap)
            if o[1] == "mutate":
                snap.extend(b"\x01\x02")      # the receiver owns what it was given
                if keep:
                    snap[0] ^= 0x55
                taken.append((None, keep, None))
            else:
                taken.append((snap, keep, EoReader(snap) if o[1] == "reader" else None))
            res.count("probe.output_taken_mid_history")
            continue
        if k == "refused":
            try:
                if o[2] == "fixed":
                    w.add_fixed_string(o[1], len(o[1]) - 1)
                elif o[2] == "fixed_encoded":
                    w.add_fixed_encoded_string(o[1], len(o[1]) + 1)
                else:
                    w.add_fixed_string(o[1], len(o[1]) - 1, True)
                return fail("not-refused", k, f"step {step}: a write with a wrong length was accepted: {o!r}", step)
            except ValueError:
                res.count("probe.refused_write_in_history")
            continue
        try:
            if k in WRITE:
                getattr(w, WRITE[k])(o[1]); declared += {"byte": 1, "char": 1, "short": 2, "three": 3, "int": 4}[k]
                if k != "byte" and o[1] == {"char": 253, "short": 253**2, "three": 253**3, "int": 253**4}[k] - 1:
                    res.count("probe.int_at_max")
            elif k == "bytes":
                if step % 3 == 1:
                    # the sender builds the bytes in a scratch array of its own and reuses it right away
                    scratch = bytearray(o[1])
                    w.add_bytes(scratch)
                    scratch.clear()
                    scratch += b"\x07\x07"
                    res.count("probe.scratch_bytearray_reused_by_sender")
                else:
                    w.add_bytes(bytes(o[1]))
                declared += len(o[1])
            elif k == "fixed":
                w.add_fixed_string(o[1], o[2], o[3]); declared += o[2]
            elif k == "fixed_encoded":
                w.add_fixed_encoded_string(o[1], o[2], o[3]); declared += o[2]
            elif k == "tail":
                w.add_string(o[1]); declared += len(o[1])
            elif k == "tail_encoded":
                w.add_encoded_string(o[1]); declared += len(o[1])
        except Exception as e:
            return fail("write-raised", k, f"step {step}: valid write {o!r} raised {type(e).__name__}: {e}", step)
        if k in ("fixed", "fixed_encoded", "tail", "tail_encoded"):
            s = o[1]
            if s and any(isinstance(p[1], str) and p[1] == s for p in ops[:step]):
                res.count("probe.same_string_written_again")
            if not s:
                res.count("probe.empty_string")
                if len(o) > 3 and o[3] and o[2] > 0:
                    res.count("probe.empty_padded_string")
            if image(s) != s:
                res.count("probe.non_cp1252_character")
            if len(o) > 3 and o[3] and len(s) == o[2] and s:
                res.count("probe.perfect_fit_padded")
            if len(o) > 3 and o[3] and o[2] - len(s) > 252:
                res.count("probe.very_long_padding")
            if "ÿ" in s and len(o) > 3 and not o[3]:
                res.count("probe.y_diaeresis_in_unpadded_string")
            if k.startswith("tail"):
                res.count("probe.trailing_unbounded_string")
    out = w.to_bytearray()
    tr.ev("written", bytes(out).hex())
    if len(out) != declared:
        return fail("output-length", "total", f"output has {len(out)} bytes, declared sizes sum to {declared}", len(ops))
    for snap, keep, rd in taken:
        if snap is not None and bytes(snap) != keep:
            return fail("value", "earlier-output", f"output taken earlier ({keep.hex()[:60]}) changed to {bytes(snap).hex()[:60]} "
                        "while the writer was used further", len(ops))
        if bytes(out[:len(keep)]) != keep:
            return fail("value", "earlier-output", f"the final output does not start with the output taken earlier "
                        f"({keep.hex()[:60]} vs {bytes(out).hex()[:60]})", len(ops))
    r = EoReader(bytes(out))
    retained = []
    for step, o in enumerate(ops):
        k = o[0]
        if k == "toggle":
            # the receiver does the same to its reader (what every generated deserializer with a <chunked> section
            # does to the reader it is given): chunked mode on and straight off again, nothing read in between
            for _ in range(2 if o[1] == "on-off-twice" else 1):
                if o[1] != "off":
                    r.chunked_reading_mode = True
                r.chunked_reading_mode = False
            continue
        if k in ("refused", "flush", "refused_int"):
            continue
        try:
            if k == "byte":
                got, want = r.get_byte(), o[1]
            elif k == "bytes":
                raw = r.get_bytes(len(o[1]))
                retained.append((raw, bytes(o[1]), step))       # looked at again when everything has been read
                got, want = bytes(raw), bytes(o[1])
            elif k in INT_KINDS:
                got, want = getattr(r, "get_" + k)(), o[1]
            elif k == "fixed":
                got, want = r.get_fixed_string(o[2], o[3]), image(o[1])
            elif k == "fixed_encoded":
                got, want = r.get_fixed_encoded_string(o[2], o[3]), image(o[1])
            elif k == "tail":
                got, want = r.get_string(), image(o[1])
            else:
                got, want = r.get_encoded_string(), image(o[1])
        except Exception as e:
            return fail("read-raised", k, f"read {step} of {o!r} raised {type(e).__name__}: {e}", step)
        tr.ev(step, k, repr(got))
        if got != want:
            return fail("value", k + ("P" if len(o) > 3 and o[3] else ""),
                        f"item {step} written as {o!r} read back as {got!r}, expected {want!r}", step)
    for raw, want, at in retained:
        res.count("probe.raw_bytes_result_looked_at_again")
        if bytes(raw) != want:
            return fail("value", "bytes-retained", f"the bytes returned for item {at} ({want.hex()}) read {bytes(raw).hex()} after the "
                        f"remaining items had been read", at)
    if r.remaining != 0 or r.position != len(out):
        return fail("not-consumed", "end", f"after reading everything remaining={r.remaining} position={r.position} len={len(out)}", len(ops))
    kinds = [o[0] + ("P" if len(o) > 3 and o[3] else "") for o in ops if o[0] not in ("flush", "toggle", "refused_int")] + (["flush"] if taken else [])
    if len(ops) >= 2:
        classes = sorted({("y" if "ÿ" in o[1] else "") + ("u" if image(o[1]) != o[1] else "") + ("e" if not o[1] else "")
                          for o in ops if isinstance(o[1], str) and o[0] not in ("refused", "flush", "toggle", "refused_int")})
        res.keys.add(",".join(kinds[:3]) + "|" + "/".join(classes))
    res.digest = tr.digest()
    res.steps = tr.steps
    res.sample = {"ops": [repr(o) for o in ops[:8]], "n_ops": len(ops), "output_hex": bytes(out).hex()[:80]}
    return res


LEVEL_TEXT = (
    "Seeded exploration of write histories (arbitrary Unicode strings, boundary-biased integers, every string "
    "method and padding relation) read back through the real reader; each value must equal what was written "
    "(strings: their cp1252 image) and the output must be consumed exactly. Sampling, not proof. This property has "
    "no fault or nondeterminism dimension; it is the fault-free configuration of the pipe simulated in C06/C09."
)
LEVEL_NOTE = "Trusted: Python's cp1252 codec; the generator avoids only the characters the property excludes."
TECHNIQUE = "deterministic seeded history simulation of the writer->reader pipe (fault-free configuration)"
