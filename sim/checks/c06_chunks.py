"""C06 - Chunk framing isolates chunks from over- and under-reads.

Simulated parties: a sender (real EoWriter, sanitisation on) laying out chunks of typed
fields separated by break bytes, and a receiver (real EoReader in chunked mode) whose read
plan is that of another protocol version: per chunk any prefix of the fields, then surplus
reads, then next_chunk.
"""

import importlib

from ..core import Result, Trace
from ..gen.values import gen_string, gen_int_in_range, StringPool

ID = "C06"
LEVEL = "exploration"
BATCH = 300
BUDGET = {"quick": 25.0, "thorough": 600.0}
RULE = (
    "one evaluation = one seeded session: 1-8 chunks x 0-6 typed fields written with sanitisation on, read by "
    "a receiver with a per-chunk plan (prefix of the fields, 0-4 surplus reads, next_chunk); distinct = distinct "
    "sequences of per-chunk plan classes {exact, under, over, under+surplus, empty} (up to 5 chunks) combined "
    "with whether a y-diaeresis string was present; non-trivial = at least one chunk is not read exactly"
)
ASSUMPTIONS = [
    "raw 0xFF bytes and padded strings are outside the property (padding is itself 0xFF) and are not generated",
    "'~' is not generated inside encoded strings (the format cannot carry it)",
    "expected string value = cp1252 image with y-diaeresis replaced by 'y' (sanitisation on)",
]
COMPONENTS = {
    "real": ["eolib.data.EoWriter (sanitisation on)", "eolib.data.EoReader (chunked mode)", "codecs"],
    "stub_or_harness": ["sender/receiver scripts (version-skewed read plans)", "expected-value computation"],
}
PROBES = ["mode_switched_off_redundantly_before_on", "raw_break_byte_in_unsanitised_header", "generated_receiver_of_generated_sender", "empty_case_next_to_default", "break_inside_switch_case", "second_receiver_from_slice_zero", "chunked_section_of_structs_only", "unchunked_overread_inside_chunk", "mode_reassigned_mid_stream", "generated_serializer_session", "generated_deserializer_session", "unsanitised_y_in_header", "overread_spanning_integer", "empty_chunk", "string_only_y_diaeresis", "last_chunk_overread",
          "underread_then_surplus", "first_byte_y_diaeresis", "last_byte_y_diaeresis", "one_char_y_diaeresis"]
FAULT_KINDS = ["under_read", "over_read"]

INT_KINDS = ["char", "short", "three", "int"]
SURPLUS = ["get_byte", "get_char", "get_short", "get_three", "get_int", "get_string", "get_encoded_string",
           "get_bytes", "get_fixed_string", "get_fixed_encoded_string"]


def generate(streams, tier):
    rng = streams.get("plan")
    vr = streams.get("values")
    chunks = []
    pool = StringPool(vr)
    # an un-chunked header written BEFORE sanitisation is switched on (as generated packets do with the
    # fields ahead of their <chunked> section); the receiver reads the chunked body through slice()
    header = []
    for _ in range(rng.choice([0, 0, 1, 2, 3])):
        if rng.random() < 0.4:
            k = rng.choice(INT_KINDS)
            header.append([k, gen_int_in_range(vr, k)])
        else:
            enc = rng.random() < 0.5
            header.append(["fixed_encoded" if enc else "fixed", pool.get(vr, allow_tilde=not enc)])
    for _ in range(rng.randrange(1, 9)):
        fields = []
        nf = rng.randrange(0, 7)
        for i in range(nf):
            r = rng.random()
            if r < 0.45:
                k = rng.choice(INT_KINDS)
                fields.append([k, gen_int_in_range(vr, k)])
            else:
                enc = rng.random() < 0.5
                s = pool.get(vr, allow_tilde=not enc)
                if i == nf - 1 and rng.random() < 0.5:
                    fields.append(["tail_encoded" if enc else "tail", s])
                else:
                    fields.append(["fixed_encoded" if enc else "fixed", s])
        prefix = rng.choice([nf, nf, rng.randrange(0, nf + 1)])
        surplus = []
        for _ in range(rng.choice([0, 0, 1, 2, 4])):
            if rng.random() < 0.2:
                surplus.append([rng.choice(["reassign_mode", "mode_off_on"])])   # no-ops by contract
                continue
            if rng.random() < 0.08:
                # what a nested structure's plain tail does inside a chunked parent: read with the mode off, possibly
                # across the break, then go back to chunked mode - next_chunk must still land on the next chunk
                surplus.append(["unchunked_overread", rng.randrange(1, 12)])
                continue
            op = rng.choice(SURPLUS)
            if op in ("get_fixed_string", "get_fixed_encoded_string") and rng.random() < 0.5:
                surplus.append([op, rng.randrange(0, 9), True])        # the receiver expects a padded field there
            elif op in ("get_bytes", "get_fixed_string", "get_fixed_encoded_string"):
                surplus.append([op, rng.randrange(0, 9)])
            else:
                surplus.append([op])
        chunks.append({"fields": fields, "prefix": prefix, "surplus": surplus})
    plan = {"chunks": chunks, "header": header}
    if rng.random() < 0.15:
        # a second receiver starts over from the beginning of the chunked part (slice(0) of the first one) after the
        # first one has consumed that many chunks, and reads everything
        plan["reslice_after"] = rng.randrange(0, len(chunks) + 1)
    if rng.random() < 0.05:
        # the sender is a GENERATED packet serializer (chunked section, nested struct with or without its own
        # chunked section, strings after the nested struct); the receiver is still a hand-driven EoReader
        plan["generated"] = {
            "variant": rng.choice(["InnerChunked", "InnerPlain"]),
            "h": (pool.get(vr, min_len=2, max_len=2) + "xx")[:2],
            "s1": pool.get(vr), "a": pool.get(vr, min_len=3, max_len=3) if True else "", "b": gen_int_in_range(vr, "short"),
            "s2": pool.get(vr), "k": gen_int_in_range(vr, "three"), "s3": pool.get(vr, allow_tilde=False),
            "kind": rng.choice([1, 1, 2, 2, 3, 9]), "note": pool.get(vr),
            "skip": [rng.random() < 0.3 for _ in range(7)], "extra": [rng.random() < 0.3 for _ in range(7)],
        }
        plan["generated"]["a"] = (plan["generated"]["a"] + "abc")[:3]
        if rng.random() < 0.3:
            # a chunked section whose only members are structures: the strings live one level down
            n = rng.randrange(0, 5)
            plan["generated"] = {"variant": "Roster",
                                 "members": [[gen_int_in_range(vr, "short"), pool.get(vr)] for _ in range(n + 1)],
                                 "skip": [rng.random() < 0.3 for _ in range(n + 1)], "extra": [rng.random() < 0.3 for _ in range(n + 1)]}
    elif rng.random() < 0.05:
        # the RECEIVER is a generated deserializer; the sender is a hand-driven EoWriter of another protocol version
        if rng.random() < 0.3:
            plan["generated_rx"] = {"template": "Opts", "a": gen_int_in_range(vr, "char"), "b": gen_int_in_range(vr, "char"),
                                    "c": gen_int_in_range(vr, "char"),
                                    "o1": rng.choice([None, gen_int_in_range(vr, "short")]),
                                    "o2": rng.choice([None, pool.get(vr, min_len=1)]),
                                    "o3": rng.choice([None, gen_int_in_range(vr, "char")])}
        elif rng.random() < 0.5:
            plan["generated_rx"] = {"template": "List", "names": [rng.choice(["", "", pool.get(vr), gen_string(vr, max_len=4)])
                                                                  for _ in range(rng.randrange(0, 6))], "after": pool.get(vr)}
        else:
            plan["generated_rx"] = {"template": "Pairs", "tag": gen_int_in_range(vr, "char"),
                                    "pairs": [[gen_int_in_range(vr, "char"), gen_int_in_range(vr, "short"),
                                               rng.choice(["exact", "exact", "short", "long"])] for _ in range(rng.randrange(0, 6))]}
    return plan


SHRINK_KEYS = ["chunks", "header"]


def image(s):
    return s.replace("ÿ", "y").encode("cp1252", "replace").decode("cp1252", "replace")


_HDR = '<?xml version="1.0" encoding="UTF-8"?>\n'


def c06_tree():
    from ..workspace import skeleton_tree
    t = skeleton_tree()
    t["net/protocol.xml"] = _HDR + """<protocol>
    <enum name="PacketFamily" type="byte"><value name="Talk">1</value></enum>
    <enum name="PacketAction" type="byte"><value name="Tell">1</value><value name="Report">2</value><value name="List">3</value><value name="Pairs">4</value><value name="Opts">5</value><value name="Roster">6</value></enum>
    <struct name="Pair">
        <chunked>
            <field name="id" type="char"/>
            <field name="amount" type="short"/>
            <break/>
        </chunked>
    </struct>
    <struct name="InnerChunked">
        <chunked>
            <field name="a" type="string"/>
            <break/>
            <field name="b" type="short"/>
        </chunked>
        <chunked>
            <field name="c" type="char"/>
        </chunked>
    </struct>
    <struct name="AfterChunk">
        <chunked>
            <field name="inside" type="string"/>
            <break/>
        </chunked>
        <field name="flag" type="char"/>
        <field name="tail" type="string"/>
    </struct>
    <enum name="Kind" type="char"><value name="One">1</value><value name="Two">2</value></enum>
    <struct name="Widths">
        <field name="k1" type="Kind"/>
        <field name="k2" type="Kind:short"/>
        <field name="k3" type="Kind:three"/>
        <field name="k4" type="Kind"/>
    </struct>
    <struct name="Member">
        <field name="rank" type="short"/>
        <field name="name" type="string"/>
    </struct>
    <struct name="InnerPlain">
        <field name="a" type="string" length="3"/>
        <field name="b" type="short"/>
        <field name="mark" type="string" length="3">\u00ffzz</field>
        <field type="string" length="2">z\u00ff</field>
    </struct>
</protocol>
"""
    packet = """    <packet family="Talk" action="%s">
        <field name="h" type="string" length="2"/>
        <chunked>
            <field name="s1" type="string"/>
            <break/>
            <field name="inner" type="%s"/>
            <break/>
            <field type="string" length="3">\u00ffes</field>
            <field name="s2" type="string"/>
            <break/>
            <field name="kind" type="char"/>
            <switch field="kind">
                <case value="1">
                    <field name="note" type="string"/>
                    <break/>
                    <field name="extra" type="char"/>
                </case>
                <case value="2"/>
                <case default="true">
                    <field name="fallback" type="string"/>
                    <break/>
                    <field name="fb" type="char"/>
                </case>
            </switch>
            <break/>
            <field name="k" type="three"/>
            <field name="s3" type="encoded_string"/>
        </chunked>
    </packet>
"""
    rx = """    <packet family="Talk" action="List">
        <chunked>
            <length name="count" type="char"/>
            <array name="names" type="string" length="count" delimited="true"/>
            <field name="after" type="string"/>
        </chunked>
    </packet>
    <packet family="Talk" action="Opts">
        <chunked>
            <field name="a" type="char"/>
            <field name="o1" type="short" optional="true"/>
            <break/>
            <field name="b" type="char"/>
            <field name="o2" type="string" optional="true"/>
            <break/>
            <field name="c" type="char"/>
            <field name="o3" type="char" optional="true"/>
        </chunked>
    </packet>
    <packet family="Talk" action="Roster">
        <chunked>
            <field name="leader" type="Member"/>
            <break/>
            <length name="members_count" type="char" offset="-1"/>
            <field name="season" type="char"/>
            <array name="members" type="Member" length="members_count" delimited="true" trailing-delimiter="false"/>
            <break/>
            <field name="closing" type="short"/>
        </chunked>
    </packet>
    <packet family="Talk" action="Pairs">
        <field name="tag" type="char"/>
        <chunked>
            <array name="pairs" type="Pair"/>
        </chunked>
    </packet>
"""
    t["net/server/protocol.xml"] = _HDR + "<protocol>\n" + packet % ("Tell", "InnerChunked") + packet % ("Report", "InnerPlain") + rx + "</protocol>\n"
    return t


def load(env):
    from ..core import load_fixed_tree
    return load_fixed_tree(env, "c06_loaded", c06_tree, "C06")


def run_generated(plan, env, res, tr, fail):
    """Sender = generated packet serializer; receiver = EoReader in chunked mode with per-chunk skips/extras."""
    g = plan["generated"]
    EoWriter = importlib.import_module("eolib.data.eo_writer").EoWriter
    EoReader = importlib.import_module("eolib.data.eo_reader").EoReader
    net = importlib.import_module("eolib.protocol._generated.net")
    srv = importlib.import_module("eolib.protocol._generated.net.server")
    if g["variant"] == "Roster":
        return run_generated_roster(g, net, srv, EoWriter, EoReader, res, tr, fail)
    inner_cls = getattr(net, g["variant"])
    pkt_cls = srv.TalkTellServerPacket if g["variant"] == "InnerChunked" else srv.TalkReportServerPacket
    kind = g.get("kind", 2)
    kind0 = kind
    if kind == 1:
        case = pkt_cls.KindData1(note=g.get("note", ""), extra=g["k"] % 253)
    elif kind == 2:
        case = None                 # an empty case: no data, and NOT the default case's data
        res.count("probe.empty_case_next_to_default")
    else:
        case = pkt_cls.KindDataDefault(fallback=g.get("note", ""), fb=g["k"] % 253)
    import inspect
    extra = {"mark": "\u00ffzz"} if "mark" in inspect.signature(inner_cls.__init__).parameters else {}
    if g["variant"] == "InnerChunked":
        extra["c"] = g["b"] % 253            # the second <chunked> section of the nested structure
    pkt = pkt_cls(h=g["h"], s1=g["s1"], inner=inner_cls(a=g["a"], b=g["b"], **extra), s2=g["s2"], kind=kind, kind_data=case,
                  k=g["k"], s3=g["s3"])
    w = EoWriter()
    try:
        pkt.write(w)
    except Exception as e:  # noqa
        return fail("sender-raised", "generated-serializer", f"{pkt_cls.__name__}.write of a valid packet (kind {kind}) raised "
                    f"{type(e).__name__}: {e}", 0)
    out = bytes(w.to_bytearray())
    tr.ev("generated", g["variant"], out.hex())
    res.count("probe.generated_serializer_session")
    hb = g["h"].encode("cp1252", "replace")
    body = out[len(hb):]
    # the case of kind 1 has a break of its own: its data spans two chunks
    kchunks = [[("char", kind), ("s", g.get("note", ""))], [("char", g["k"] % 253)]] if kind != 2 else [[("char", kind)]]
    if kind != 2:
        res.count("probe.break_inside_switch_case")
    if g["variant"] == "InnerChunked":
        chunks = [[("s", g["s1"])], [("s", g["a"])], [("short", g["b"]), ("char", g["b"] % 253)], [("f3", "\u00ffes"), ("s", g["s2"])], *kchunks, [("three", g["k"]), ("e", g["s3"])]]
    else:
        chunks = [[("s", g["s1"])], [("f3", g["a"]), ("short", g["b"]), ("f3", "\u00ffzz"), ("f2", "z\u00ff")], [("f3", "\u00ffes"), ("s", g["s2"])], *kchunks, [("three", g["k"]), ("e", g["s3"])]]
    if body.count(0xFF) != len(chunks) - 1:
        return fail("break-in-payload", "generated-serializer",
                    f"{pkt_cls.__name__} wrote {body.count(0xFF)} break bytes after the header for {len(chunks)} chunks: "
                    f"{out.hex()} (values {g})", 0)
    r = EoReader(out)
    r.get_fixed_string(len(hb))
    r = r.slice()
    r.chunked_reading_mode = True
    for ci, fields in enumerate(chunks):
        if not g["skip"][ci]:
            for kind, val in fields:
                if kind == "s":
                    got, want = r.get_string(), image(val)
                elif kind == "e":
                    got, want = r.get_encoded_string(), image(val)
                elif kind == "f3":
                    got, want = r.get_fixed_string(3), image(val)
                elif kind == "f2":
                    got, want = r.get_fixed_string(2), image(val)
                else:
                    got, want = getattr(r, "get_" + kind)(), val
                if got != want:
                    return fail("field-value", "generated-serializer",
                                f"{pkt_cls.__name__}: chunk {ci} field {val!r} read as {got!r}, expected {want!r} (wire {out.hex()})", ci)
            if g["extra"][ci] and r.get_int() != 0:
                return fail("surplus-value", "generated-serializer", f"{pkt_cls.__name__}: surplus read after chunk {ci} is not 0", ci)
        r.next_chunk()
    if r.remaining != 0:
        return fail("not-at-end", "generated-serializer", f"remaining={r.remaining} after the last chunk", 0)
    # ... and the generated receiver recovers every chunk's fields (a case whose first field is empty included).
    # Not when the header (written with sanitisation off, outside the chunked section) holds a y-diaeresis: the
    # reader looks for the first break from the start of its data, so a raw 0xFF before the chunked section ends
    # "chunk 0" early for a receiver that does not slice() first - outside this property, which is about data
    # written with sanitisation on.
    if "\u00ff" in g["h"]:
        res.count("probe.raw_break_byte_in_unsanitised_header")
        return None
    try:
        back = pkt_cls.deserialize(EoReader(out))
        kd = back.kind_data
        got = [back.h, back.s1, back.inner.a, back.inner.b, back.s2, int(back.kind), back.k, back.s3,
               None if kd is None else tuple(getattr(kd, n) for n in (("note", "extra") if kind0 == 1 else ("fallback", "fb")))]
    except Exception as e:  # noqa
        return fail("field-value", "generated-deserializer", f"{pkt_cls.__name__}.deserialize of its own serialization raised "
                    f"{type(e).__name__}: {e} (wire {out.hex()})", 0)
    plain = lambda t: t.encode("cp1252", "replace").decode("cp1252", "replace")      # noqa  (the header is outside <chunked>)
    want = [plain(g["h"]), image(g["s1"]), image(g["a"]), g["b"], image(g["s2"]), kind0, g["k"], image(g["s3"]),
            None if kind0 == 2 else (image(g.get("note", "")), g["k"] % 253)]
    res.count("probe.generated_receiver_of_generated_sender")
    if got != want:
        return fail("field-value", "generated-deserializer", f"{pkt_cls.__name__}.deserialize of its own serialization gave {got!r}, "
                    f"expected {want!r} (wire {out.hex()})", 0)
    return None


def run_generated_roster(g, net, srv, EoWriter, EoReader, res, tr, fail):
    mk = lambda m: net.Member(rank=m[0], name=m[1])
    rest = g["members"][1:]
    closing = (g["members"][0][0] * 7 + 3) % 64009
    pkt = srv.TalkRosterServerPacket(leader=mk(g["members"][0]), members=[mk(m) for m in rest], closing=closing, season=closing % 251 + 1)
    w = EoWriter()
    try:
        pkt.write(w)
    except Exception as e:  # noqa
        return fail("sender-raised", "generated-serializer", f"TalkRosterServerPacket.write of a valid packet raised {type(e).__name__}: {e}", 0)
    out = bytes(w.to_bytearray())
    tr.ev("generated", "Roster", out.hex())
    res.count("probe.generated_serializer_session")
    res.count("probe.chunked_section_of_structs_only")
    # leader | count + first member | further members (separated, no trailing delimiter) | closing number
    chunks = [[("short", g["members"][0][0]), ("s", g["members"][0][1])]]
    # the count travels minus its offset of -1
    chunks.append([("char", len(rest) + 1), ("char", closing % 251 + 1)] + ([("short", rest[0][0]), ("s", rest[0][1])] if rest else []))
    chunks += [[("short", m[0]), ("s", m[1])] for m in rest[1:]]
    chunks.append([("short", closing)])
    if out.count(0xFF) != len(chunks) - 1:
        return fail("break-in-payload", "generated-serializer",
                    f"TalkRosterServerPacket wrote {out.count(0xFF)} break bytes for {len(chunks)} chunks: {out.hex()} "
                    f"(members {g['members']})", 0)
    r = EoReader(out)
    r.chunked_reading_mode = True
    for ci, fields in enumerate(chunks):
        if not g["skip"][ci % len(g["skip"])]:
            for kind, val in fields:
                got, want = (r.get_string(), image(val)) if kind == "s" else (getattr(r, "get_" + kind)(), val)
                if got != want:
                    return fail("field-value", "generated-serializer",
                                f"TalkRosterServerPacket: chunk {ci} field {val!r} read as {got!r} (wire {out.hex()})", ci)
            if g["extra"][ci % len(g["extra"])] and r.get_int() != 0:
                return fail("surplus-value", "generated-serializer", f"TalkRosterServerPacket: surplus read after chunk {ci} is not 0", ci)
        r.next_chunk()
    if r.remaining != 0:
        return fail("not-at-end", "generated-serializer", f"remaining={r.remaining} after the last chunk", 0)
    # ... and the generated receiver agrees
    back = srv.TalkRosterServerPacket.deserialize(EoReader(out))
    got = [(m.rank, m.name) for m in [back.leader] + list(back.members)] + [back.closing]
    want = [(m[0], image(m[1])) for m in g["members"]] + [closing]
    if got != want:
        return fail("field-value", "generated-serializer", f"TalkRosterServerPacket deserialized {got!r}, expected {want!r} (wire {out.hex()})", 0)
    return None


def run_generated_rx(plan, env, res, tr, fail):
    """Sender = hand-driven EoWriter (sanitisation on) of another protocol version; receiver = generated deserializer."""
    g = plan["generated_rx"]
    EoWriter = importlib.import_module("eolib.data.eo_writer").EoWriter
    EoReader = importlib.import_module("eolib.data.eo_reader").EoReader
    srv = importlib.import_module("eolib.protocol._generated.net.server")
    w = EoWriter()
    res.count("probe.generated_deserializer_session")
    if g["template"] == "Opts":
        # optional fields are present or absent chunk by chunk, independently of the other chunks
        w.string_sanitization_mode = True
        w.add_char(g["a"])
        if g["o1"] is not None:
            w.add_short(g["o1"])
        w.add_byte(0xFF)
        w.add_char(g["b"])
        if g["o2"] is not None:
            w.add_string(g["o2"])
        w.add_byte(0xFF)
        w.add_char(g["c"])
        if g["o3"] is not None:
            w.add_char(g["o3"])
        data = bytes(w.to_bytearray())
        obj = srv.TalkOptsServerPacket.deserialize(EoReader(data))
        got = (obj.a, obj.o1, obj.b, obj.o2, obj.c, obj.o3)
        want = (g["a"], g["o1"], g["b"], image(g["o2"]) if g["o2"] is not None else None, g["c"], g["o3"])
    elif g["template"] == "List":
        w.string_sanitization_mode = True
        w.add_char(len(g["names"]))
        for n in g["names"]:
            w.add_string(n)
            w.add_byte(0xFF)
        w.add_string(g["after"])
        data = bytes(w.to_bytearray())
        obj = srv.TalkListServerPacket.deserialize(EoReader(data))
        got = (tuple(obj.names), obj.after)
        want = (tuple(image(n) for n in g["names"]), image(g["after"]))
    else:
        w.add_char(g["tag"])
        w.string_sanitization_mode = True
        want_pairs = []
        for pid, amount, skew in g["pairs"]:
            w.add_char(pid)
            if skew == "short":          # an older sender: the amount field does not exist yet
                want_pairs.append((pid, 0))
            else:
                w.add_short(amount)
                want_pairs.append((pid, amount))
                if skew == "long":       # a newer sender: extra fields this receiver does not know
                    w.add_three(12345)
                    w.add_string("new")
            w.add_byte(0xFF)
        data = bytes(w.to_bytearray())
        obj = srv.TalkPairsServerPacket.deserialize(EoReader(data))
        got = (obj.tag, tuple((p.id, p.amount) for p in obj.pairs))
        want = (g["tag"], tuple(want_pairs))
    tr.ev("generated_rx", g["template"], data.hex(), repr(got))
    if got != want:
        return fail("field-value", "generated-deserializer",
                    f"{g['template']}: chunks written as {want!r} were deserialized as {got!r} (wire {data.hex()})", 0)
    return None


def execute(plan, env):
    broken = load(env)
    if broken:
        res = Result()
        res.violation = broken
        res.digest = Trace().digest()
        return res
    EoWriter = importlib.import_module("eolib.data.eo_writer").EoWriter
    EoReader = importlib.import_module("eolib.data.eo_reader").EoReader
    res = Result()
    tr = Trace(keep=env.keep_trace)
    chunks = plan["chunks"]

    def fail(kind, op, detail, step):
        res.violation = {"kind": kind, "signature": f"C06|{kind}|{op}", "detail": detail, "step": step}
        res.digest = tr.digest()
        res.steps = tr.steps
        return res

    if plan.get("generated"):
        if run_generated(plan, env, res, tr, fail) is not None:
            return res
    if plan.get("generated_rx"):
        if run_generated_rx(plan, env, res, tr, fail) is not None:
            return res
    w = EoWriter()
    header = plan.get("header", [])
    for f in header:
        if f[0] in INT_KINDS:
            getattr(w, "add_" + f[0])(f[1])
        elif f[0] == "fixed":
            w.add_fixed_string(f[1], len(f[1]))
        else:
            w.add_fixed_encoded_string(f[1], len(f[1]))
        if isinstance(f[1], str) and "ÿ" in f[1]:
            res.count("probe.unsanitised_y_in_header")
    header_len = len(w)
    if len(chunks) % 2:
        w.string_sanitization_mode = False      # redundantly off (it is off already), as after any serializer that restored it
        res.count("probe.mode_switched_off_redundantly_before_on")
    w.string_sanitization_mode = True
    any_y = False
    for ci, ch in enumerate(chunks):
        if ci > 0:
            w.add_byte(0xFF)
        for f in ch["fields"]:
            k = f[0]
            if k in INT_KINDS:
                getattr(w, "add_" + k)(f[1])
            elif k == "fixed":
                w.add_fixed_string(f[1], len(f[1]))
            elif k == "fixed_encoded":
                w.add_fixed_encoded_string(f[1], len(f[1]))
            elif k == "tail":
                w.add_string(f[1])
            else:
                w.add_encoded_string(f[1])
            if isinstance(f[1], str) and "ÿ" in f[1]:
                any_y = True
                s = f[1]
                if set(s) == {"ÿ"}:
                    res.count("probe.string_only_y_diaeresis")
                if len(s) == 1:
                    res.count("probe.one_char_y_diaeresis")
                if s[0] == "ÿ":
                    res.count("probe.first_byte_y_diaeresis")
                if s[-1] == "ÿ":
                    res.count("probe.last_byte_y_diaeresis")
    out = bytes(w.to_bytearray())
    tr.ev("sent", out.hex())
    n_ff = out[header_len:].count(0xFF)
    if n_ff != len(chunks) - 1:
        return fail("break-in-payload", "writer", f"{n_ff} bytes 0xFF in the output of {len(chunks)} chunks "
                    f"(expected {len(chunks) - 1}): {out.hex()}", 0)
    r = EoReader(out)
    step = 0
    for f in header:
        step += 1
        if f[0] in INT_KINDS:
            got, want = getattr(r, "get_" + f[0])(), f[1]
        elif f[0] == "fixed":
            got, want = r.get_fixed_string(len(f[1])), f[1].encode("cp1252", "replace").decode("cp1252", "replace")
        else:
            got, want = r.get_fixed_encoded_string(len(f[1])), f[1].encode("cp1252", "replace").decode("cp1252", "replace")
        if got != want:
            return fail("header-value", f[0], f"header field {f!r} (written with sanitisation off) read as {got!r}, expected {want!r}", step)
    if header:
        r = r.slice()
    r.chunked_reading_mode = True
    classes = []

    def reread_from_start(first):
        r2 = first.slice(0)
        r2.chunked_reading_mode = True
        res.count("probe.second_receiver_from_slice_zero")
        for cj, ch2 in enumerate(chunks):
            for f in ch2["fields"]:
                k = f[0]
                if k in INT_KINDS:
                    got, want = getattr(r2, "get_" + k)(), f[1]
                elif k == "fixed":
                    got, want = r2.get_fixed_string(len(f[1])), image(f[1])
                elif k == "fixed_encoded":
                    got, want = r2.get_fixed_encoded_string(len(f[1])), image(f[1])
                elif k == "tail":
                    got, want = r2.get_string(), image(f[1])
                else:
                    got, want = r2.get_encoded_string(), image(f[1])
                if got != want:
                    return f"a second receiver over slice(0) read chunk {cj} field {f!r} as {got!r}, expected {want!r}"
            r2.next_chunk()
        return None

    if plan.get("reslice_after") == 0:
        bad = reread_from_start(r)
        if bad:
            return fail("field-value", "second-receiver", bad, step)
    for ci, ch in enumerate(chunks):
        fields, prefix = ch["fields"], min(ch["prefix"], len(ch["fields"]))
        for f in fields[:prefix]:
            k = f[0]
            step += 1
            if k in INT_KINDS:
                got, want = getattr(r, "get_" + k)(), f[1]
            elif k == "fixed":
                got, want = r.get_fixed_string(len(f[1])), image(f[1])
            elif k == "fixed_encoded":
                got, want = r.get_fixed_encoded_string(len(f[1])), image(f[1])
            elif k == "tail":
                got, want = r.get_string(), image(f[1])
            else:
                got, want = r.get_encoded_string(), image(f[1])
            tr.ev(ci, k, repr(got))
            if got != want:
                return fail("field-value", k, f"chunk {ci}: field {f!r} read as {got!r}, expected {want!r}; "
                            f"earlier chunks were consumed as {classes}", step)
        full = prefix == len(fields)
        if not full:
            res.count("fault.under_read")
        for s in ch["surplus"]:
            step += 1
            if s[0] == "reassign_mode":
                r.chunked_reading_mode = True
                res.count("probe.mode_reassigned_mid_stream")
                continue
            if s[0] == "unchunked_overread":
                r.chunked_reading_mode = False
                r.get_bytes(s[1])
                r.chunked_reading_mode = True
                res.count("probe.unchunked_overread_inside_chunk")
                continue
            if s[0] == "mode_off_on":
                r.chunked_reading_mode = False
                r.chunked_reading_mode = True
                res.count("probe.mode_reassigned_mid_stream")
                continue
            rem_before = r.remaining
            try:
                got = getattr(r, s[0])(*s[1:])
            except Exception as e:
                return fail("surplus-raised", s[0], f"chunk {ci}: surplus read {s} raised {type(e).__name__}: {e}", step)
            if isinstance(got, (bytearray, memoryview)):
                got = bytes(got)
            tr.ev(ci, "surplus", s[0], repr(got))
            res.count("fault.over_read")
            if not full:
                res.count("probe.underread_then_surplus")
                if rem_before > 0 and s[0] in ("get_short", "get_three", "get_int") and rem_before < {"get_short": 2, "get_three": 3, "get_int": 4}[s[0]]:
                    res.count("probe.overread_spanning_integer")
            if ci == len(chunks) - 1:
                res.count("probe.last_chunk_overread")
            if full and got not in (0, "", b""):
                return fail("surplus-value", s[0], f"chunk {ci} was fully consumed, surplus read {s} "
                            f"returned {got!r} instead of 0/empty", step)
        if not fields:
            res.count("probe.empty_chunk")
            cls = "empty"
        elif full:
            cls = "over" if any(x[0].startswith("get_") for x in ch["surplus"]) else "exact"
        else:
            cls = "under+surplus" if ch["surplus"] else "under"
        classes.append(cls)
        r.next_chunk()
        tr.ev(ci, "next_chunk", r.position)
        if plan.get("reslice_after") == ci + 1:
            bad = reread_from_start(r)
            if bad:
                return fail("field-value", "second-receiver", bad + f"; the first receiver had consumed chunks as {classes}", step)
    if r.remaining != 0:
        return fail("not-at-end", "end", f"remaining={r.remaining} after the last chunk", step)
    if any(c not in ("exact",) for c in classes):
        res.keys.add("/".join(classes[:5]) + ("|y" if any_y else ""))
    res.digest = tr.digest()
    res.steps = tr.steps
    res.sample = {"chunks": [{"fields": [repr(f) for f in c["fields"]], "prefix": c["prefix"], "surplus": c["surplus"]}
                             for c in chunks[:3]], "n_chunks": len(chunks), "wire_hex": out.hex()[:80]}
    return res


LEVEL_TEXT = (
    "Seeded search over (chunk contents x version-skewed read plans): under-reads and over-reads are the injected "
    "faults, and the invariant is non-interference - whatever happened in chunks 1..k, the fields of chunk k+1 read "
    "back correctly, surplus reads after a consumed chunk yield 0/empty, and the sender never emits a stray break byte. "
    "Sampling, not proof."
)
LEVEL_NOTE = "Trusted: expected-value computation (cp1252 image with y-diaeresis -> y). Raw 0xFF bytes and padded strings are outside the property."
TECHNIQUE = "deterministic two-party simulation (sender vs. version-skewed receiver) with under-/over-reads as injected faults"
