"""C18 - Generation is deterministic and always yields an importable package.

Simulated system: the real ProtocolCodeGenerator in child interpreters whose PYTHONHASHSEED,
directory-walk order, output-directory state and I/O faults (open/makedirs errors, torn
writes, crashes that end the process mid-write, files lost or truncated after a crash) are
chosen by the plan.  Reference run R: sorted walk, hash seed 0, fresh directory, fresh instance.
"""

import json
import os
import random
import shutil
import subprocess
import sys

from ..core import Result, Trace, VERIF_DIR
from ..gen import specgen
from ..models.spec_model import Spec, snake_case
from ..treeenv import closure, prune_tree

ID = "C18"
LEVEL = "exploration"
SELFTEST_N = 24
BATCH = 1
DOUBLE_EVERY = 29
TASK_LIMIT_S = 1800
BUDGET = {"quick": 40.0, "thorough": 1200.0}
SHRINK_BUDGET = 60
RULE = (
    "one evaluation = one generator run (generate() call or protocol.py invocation) in a child interpreter under one "
    "configuration: hash seed, os.walk permutation, on-disk creation order, repeated run on the same instance, output "
    "directory pre-populated (own output / another tree's output / debris of a faulted run), injected I/O error "
    "(open, read, makedirs, torn write) followed by a retry on the same instance, crash mid-write followed by file "
    "loss and a restart in a new process; plus one import check per tree in a fresh interpreter. Fault points are "
    "enumerated over every write of the run when it makes <= 80 writes (thorough) or sampled (quick). distinct = "
    "distinct (tree shape hash, configuration kind, fault kind, fault position class {first, last, middle}); "
    "non-trivial = every configuration other than the reference run"
)
ASSUMPTIONS = [
    "spec trees from sim/gen/specgen.py are valid: a rejection by the generator is reported as a violation",
    "cross-file type references follow the real layout (deeper directories refer to shallower ones and their own)",
    "a crash may lose or truncate any file written by the crashed run (nothing is fsynced)",
    "file comparison is by relative path and SHA-256 of the bytes",
    "type names equal to a name the generated modules themselves import or to a public class of the hand-written library (specgen.FORBIDDEN_TYPE_NAMES: Optional, Iterable, Union, EoWriter, SerializationError, Packet, ...) are not generated: identifiers colliding with generated code are degenerate per the properties; observed outside the explored domain: a struct named Optional next to an optional field makes the package unimportable",
]
COMPONENTS = {
    "real": ["protocol_code_generator (whole package)", "protocol.py clean/generate entry point", "Python import system", "real tmpfs filesystem"],
    "stub_or_harness": ["os.walk permuter", "open()/makedirs() fault wrappers", "crash = os._exit in the child", "spec generator"],
}
FAULT_KINDS = ["project_location", "oserror_open", "oserror_read", "oserror_mkdir", "torn", "crash", "crash_before", "files_lost_after_crash",
               "hash_seed", "walk_permutation", "creation_order", "prepopulated_output", "relative_paths",
               "unrelated_files_in_spec_tree", "spec_edited_between_runs", "failed_protocol_py_run_before", "second_generator_object_in_process", "deep_spec_files_edited_before", "types_moved_between_files_before"]
PROBES = ["generation_through_build_hook", "walk_order_differs_from_sorted", "fault_on_first_write", "fault_on_last_write", "retry_on_same_instance",
          "torn_init_file", "restart_after_crash", "acronym_or_digit_type_name", "import_check", "second_run_same_instance"]
SHRINK_KEYS = []
CHILD = os.path.join(VERIF_DIR, "sim", "child.py")


def generate(streams, tier):
    rng = streams.get("spec")
    tree = specgen.gen_tree(rng, "full")
    other = specgen.gen_tree(streams.get("spec2"), "small")
    prng = streams.get("plan")
    return {
        "tree": tree, "other_tree": other, "tier": tier,
        "hash_seeds": [str(prng.randrange(1, 2 ** 32)) for _ in range(2 if tier == "quick" else 4)],
        "walk_seeds": [prng.randrange(1 << 30) for _ in range(2 if tier == "quick" else 4)],
        "creation_seed": prng.randrange(1 << 30),
        "fault_seed": prng.randrange(1 << 30),
        "configs": ["again", "edited", "two_objects", "relpath", "noise", "hash", "walk", "creation", "repeat", "prepop_self", "prepop_other", "prepop_other_noclean",
                    "transient", "crash", "import"],
    }


# ---------------------------------------------------------------------------------------------


class Ctx:
    def __init__(self, env, plan, res, tr):
        self.env, self.plan, self.res, self.tr = env, plan, res, tr
        self.ws = env.ws
        self.base = os.path.join(self.ws.root, "c18")
        shutil.rmtree(self.base, ignore_errors=True)
        os.makedirs(self.base)
        self.n = 0
        self.R = None

    def path(self, name):
        return os.path.join(self.base, name)

    def write_xml(self, tree, name, order_seed=None):
        d = self.path(name)
        shutil.rmtree(d, ignore_errors=True)
        rels = sorted(tree)
        if order_seed is not None:
            random.Random(order_seed).shuffle(rels)
        # directories are created in the order the files demand, so creation order varies too
        for rel in rels:
            p = os.path.join(d, rel)
            os.makedirs(os.path.dirname(p), exist_ok=True)
            with open(p, "w", encoding="utf-8") as f:
                f.write(tree[rel])
        return d

    def child(self, steps, hash_seed="0", sys_path=None, expect_crash=False):
        job = {"sys_path": sys_path or [self.ws.root], "steps": steps}
        envv = dict(os.environ, PYTHONHASHSEED=str(hash_seed), PYTHONDONTWRITEBYTECODE="1")
        envv.pop("PYTHONPATH", None)
        p = subprocess.run([sys.executable, CHILD], input=json.dumps(job), capture_output=True, text=True,
                           env=envv, timeout=600)
        self.res.count("child_processes")
        if expect_crash and p.returncode == 137:
            return None
        if p.returncode != 0 or not p.stdout.strip():
            raise RuntimeError(f"child interpreter failed (exit {p.returncode}): {p.stderr[-800:]}")
        return json.loads(p.stdout)

    def fail(self, config, what, detail, case=None):
        self.res.violation = {"kind": what, "signature": f"C18|{config}|{what}", "detail": detail,
                              "step": self.tr.steps, "config": config}
        return False

    def judge(self, config, r, out_files, whole=True, written_only=None):
        """A run that reports success must leave every file of the reference output in place with the
        reference bytes (whether it rewrote it or found it already identical), and must not write
        anything the reference run does not write.  With written_only=None the directory was fresh or
        cleaned first, so the whole tree must equal the reference tree."""
        self.res.evaluations += 1
        self.tr.ev(config, r.get("status"), r.get("writes"), r.get("fired"))
        if r.get("status") != "ok":
            return self.fail(config, "generation-failed", f"[{config}] unfaulted generator run failed: {r.get('status')}: {r.get('error')}")
        R = self.R
        missing = sorted(k for k in R if k not in out_files)
        if missing:
            return self.fail(config, "file-set-differs", f"[{config}] after the run {len(missing)} file(s) of the reference output are missing, e.g. {missing[:4]}")
        diff = sorted(k for k in R if out_files[k] != R[k])
        if diff:
            return self.fail(config, "bytes-differ", f"[{config}] {len(diff)} file(s) differ from the reference run, e.g. {diff[:3]}")
        if written_only is None:
            extra = sorted(set(out_files) - set(R))
            if extra:
                return self.fail(config, "file-set-differs", f"[{config}] output holds files the reference run does not produce: {extra[:5]}")
        else:
            stray = sorted(set(written_only) - set(R))
            if stray:
                return self.fail(config, "file-set-differs", f"[{config}] the run wrote files the reference run does not write: {stray[:5]}")
        return True


def edited_variant(tree):
    """The same tree with other enum ordinals, other integer widths and other fixed lengths: what the
    spec may have looked like before an edit (same file and type names, so caches keyed by name go stale)."""
    import re
    out = {}
    widen = {"char": "short", "short": "three", "three": "int", "int": "three", "byte": "char"}
    for rel, text in tree.items():
        def bump(m):
            n = int(m.group(2))
            return f'{m.group(1)}{n + 1 if n < 250 else n - 1}{m.group(3)}'
        if "PacketFamily" not in text:
            text = re.sub(r'(<value name="[A-Za-z0-9_]+">)(\d+)(<)', bump, text)
        text = re.sub(r'(<field name="[a-z0-9_]+" type=")(char|short|three|int)(")', lambda m: m.group(1) + widen[m.group(2)] + m.group(3), text)
        out[rel] = text
    return out


def moved_variant(tree, seed):
    """The same types declared in other files: an enum and a struct are cut out of their protocol.xml and pasted
    into another directory's (what the spec looked like before types were moved; caches keyed by type name go stale)."""
    import re
    rng = random.Random(seed)
    out = dict(tree)
    rels = sorted(tree)
    for tag in ("enum", "struct"):
        blocks = [(rel, m.group(0)) for rel in rels
                  for m in re.finditer(r'[ \t]*<%s name="(?!PacketFamily|PacketAction)[A-Za-z0-9]+"[^>]*>.*?</%s>\n' % (tag, tag), out[rel], re.S)]
        if not blocks:
            continue
        rel, block = rng.choice(blocks)
        target = rng.choice([r for r in rels if r != rel and not r.startswith(os.path.join("net", "client"))
                             and not r.startswith(os.path.join("net", "server"))] or [rel])
        if target == rel:
            continue
        out[rel] = out[rel].replace(block, "", 1)
        out[target] = out[target].replace("</protocol>", block + "</protocol>", 1)
    return out


def run_configs(ctx):
    plan, res = ctx.plan, ctx.res
    tree = plan["tree"]
    xml = ctx.write_xml(tree, "xml")
    spec = Spec(tree)
    shape = str(len(spec.classes)) + ":" + str(sum(len(v) for v in tree.values()) % 9973)
    if any(any(ch.isdigit() for ch in n) or any(a.isupper() and b.isupper() for a, b in zip(n, n[1:])) for n in list(spec.structs) + list(spec.enums)):
        res.count("probe.acronym_or_digit_type_name")

    def key(config, fault="-", pos="-"):
        res.keys.add(f"{shape}|{config}|{fault}|{pos}")

    # ---- reference run -------------------------------------------------------------------------
    out = ctx.path("R")
    rs = ctx.child([{"op": "new", "xml": xml}, {"op": "generate", "out": out}, {"op": "digest", "dir": out}], "0")
    res.evaluations += 1
    ctx.tr.ev("ref", rs[1].get("status"), rs[1].get("writes"))
    if rs[1].get("status") != "ok":
        return ctx.fail("reference", "generation-failed", f"generator rejected a valid spec tree: {rs[1].get('status')}: {rs[1].get('error')}")
    ctx.R = rs[2]["files"]
    n_writes = rs[1]["writes"]
    n_reads = rs[1]["reads"]
    n_mkdirs = rs[1]["mkdirs"]
    ctx.tr.ev("R", len(ctx.R))      # contents stay out of the trace: differing output is judged below, not by replay
    configs = plan["configs"]
    # ---- same configuration again, in another process ------------------------------------------------
    if "again" in configs:
        o = ctx.path("again")
        rs = ctx.child([{"op": "new", "xml": xml, "keyword": True}, {"op": "generate", "out": o, "keyword": True},
                        {"op": "digest", "dir": o}], "0")
        key("again")
        if not ctx.judge("identical-rerun", rs[1], rs[2]["files"]):
            return False
    # ---- one generator instance; the spec under its input root is edited between two runs ----------------
    if "edited" in configs:
        if plan["fault_seed"] % 2:
            variant = moved_variant(tree, plan["fault_seed"])
            res.count("fault.types_moved_between_files_before")
        else:
            variant = edited_variant(tree)
        xe = ctx.write_xml(variant, "xml_edit")
        o1, o2 = ctx.path("edit1"), ctx.path("edit2")
        rs = ctx.child([{"op": "new", "xml": xe}, {"op": "generate", "out": o1},
                        {"op": "rewrite_xml", "dir": xe, "tree": tree},
                        {"op": "generate", "out": o2}, {"op": "digest", "dir": o2}], "0")
        res.count("fault.spec_edited_between_runs")
        key("edited")
        if rs[1].get("status") == "ok":      # the edited variant is itself a valid tree (when the generator accepts it)
            if not ctx.judge("same-instance-after-spec-edit", rs[3], rs[4]["files"]):
                return False
    # ---- two generator objects alive in one process (state must be per object) -----------------------------
    if "two_objects" in configs:
        xo = ctx.write_xml(plan["other_tree"], "xml_other")
        oa, ob = ctx.path("obj_a"), ctx.path("obj_b")
        rs = ctx.child([{"op": "new", "xml": xo, "slot": "a"}, {"op": "new", "xml": xml, "slot": "b"},
                        {"op": "generate", "out": oa, "slot": "a"}, {"op": "generate", "out": ob, "slot": "b"},
                        {"op": "digest", "dir": ob}], "0")
        res.count("fault.second_generator_object_in_process")
        key("two_objects")
        if not ctx.judge("two-generator-objects", rs[3], rs[4]["files"]):
            return False
    # ---- relative input/output paths from another working directory -----------------------------------
    if "relpath" in configs:
        o = ctx.path("rel_out")
        rs = ctx.child([{"op": "rmtree", "dir": o}, {"op": "chdir", "dir": ctx.base}, {"op": "new", "xml": "xml"},
                        {"op": "generate", "out": "rel_out"}, {"op": "digest", "dir": o}], "0")
        res.count("fault.relative_paths")
        key("relpath")
        if not ctx.judge("relative-paths", rs[3], rs[4]["files"]):
            return False
        # the spec root itself as working directory ("."), and a spelling with redundant components
        for spelling, cwd in ((".", xml), ("./xml/../xml", ctx.base)):
            rs = ctx.child([{"op": "rmtree", "dir": o}, {"op": "chdir", "dir": cwd}, {"op": "new", "xml": spelling},
                            {"op": "generate", "out": o}, {"op": "digest", "dir": o}], "0")
            res.count("fault.relative_paths")
            key("relpath", spelling)
            if not ctx.judge("relative-paths", rs[3], rs[4]["files"]):
                return False
        # the checkout lives somewhere else: under directories that are themselves called eolib / src / protocol, in a
        # path with a blank, in a deep path (the output is a function of the XML, not of where the project sits)
        for where in ("eolib/src/eolib/protocol/_generated", "my projects/eo lib/out", "a/b/c/d/e/f/_generated", "protocol/_generated/eolib"):
            o2 = ctx.path(where)
            rs = ctx.child([{"op": "rmtree", "dir": o2}, {"op": "new", "xml": xml}, {"op": "generate", "out": o2},
                            {"op": "digest", "dir": o2}], "0")
            res.count("fault.project_location")
            key("relpath", where.split("/")[0])
            if not ctx.judge("relative-paths", rs[2], rs[3]["files"]):
                return False
        # ... and the SPEC tree lives somewhere else: below directories called like parts of the layout
        for where in ("client/work/xml", "checkouts/server/eo-protocol/xml", "net/pub/map/xml"):
            x2 = ctx.write_xml(tree, where)
            o2 = ctx.path("loc_out")
            rs = ctx.child([{"op": "rmtree", "dir": o2}, {"op": "new", "xml": x2}, {"op": "generate", "out": o2},
                            {"op": "digest", "dir": o2}], "0")
            res.count("fault.project_location")
            key("relpath", "spec:" + where.split("/")[0])
            if not ctx.judge("relative-paths", rs[2], rs[3]["files"]):
                return False
    # ---- unrelated files and directories next to the spec files ---------------------------------------
    if "noise" in configs:
        xmln = ctx.write_xml(tree, "xml_noise")
        for rel, text in (("README.md", "# notes\n"), ("net/notes.txt", "x"), ("extra/readme.xml", "<protocol/>"),
                          ("map/protocol.xml.bak", "<broken"), (".hidden/protocol.txt", "y"), ("net/client/Protocol.XML", "<broken")):
            pth = os.path.join(xmln, rel)
            os.makedirs(os.path.dirname(pth), exist_ok=True)
            with open(pth, "w") as f:
                f.write(text)
        o = ctx.path("noise_out")
        rs = ctx.child([{"op": "rmtree", "dir": o}, {"op": "new", "xml": xmln}, {"op": "generate", "out": o},
                        {"op": "digest", "dir": o}], "0")
        res.count("fault.unrelated_files_in_spec_tree")
        key("noise")
        if not ctx.judge("unrelated-files", rs[2], rs[3]["files"]):
            return False
    # ---- hash seeds ------------------------------------------------------------------------------
    if "hash" in configs:
        for hs in plan["hash_seeds"]:
            o = ctx.path("hs")
            rs = ctx.child([{"op": "rmtree", "dir": o}, {"op": "new", "xml": xml}, {"op": "generate", "out": o},
                            {"op": "digest", "dir": o}], hs)
            res.count("fault.hash_seed")
            key("hash")
            if not ctx.judge("hash-seed", rs[2], rs[3]["files"]):
                return False
    # ---- walk permutations -----------------------------------------------------------------------
    if "walk" in configs:
        for wsd in plan["walk_seeds"]:
            o = ctx.path("walk")
            rs = ctx.child([{"op": "rmtree", "dir": o}, {"op": "seams", "walk_seed": wsd}, {"op": "new", "xml": xml},
                            {"op": "generate", "out": o}, {"op": "digest", "dir": o}], "0")
            res.count("fault.walk_permutation")
            res.count("probe.walk_order_differs_from_sorted")
            key("walk")
            if not ctx.judge("walk-order", rs[3], rs[4]["files"]):
                return False
    # ---- creation order on disk ------------------------------------------------------------------
    if "creation" in configs:
        xml2 = ctx.write_xml(tree, "xml_perm", plan["creation_seed"])
        o = ctx.path("creation")
        rs = ctx.child([{"op": "new", "xml": xml2}, {"op": "generate", "out": o}, {"op": "digest", "dir": o}], plan["hash_seeds"][0])
        res.count("fault.creation_order")
        key("creation")
        if not ctx.judge("creation-order", rs[1], rs[2]["files"]):
            return False
    # ---- repeated runs on one instance -----------------------------------------------------------
    if "repeat" in configs:
        o1, o2 = ctx.path("rep1"), ctx.path("rep2")
        rs = ctx.child([{"op": "new", "xml": xml}, {"op": "generate", "out": o1}, {"op": "generate", "out": o2},
                        {"op": "digest", "dir": o2}, {"op": "generate", "out": o1}, {"op": "digest", "dir": o1}], "0")
        res.count("probe.second_run_same_instance")
        key("repeat")
        if not ctx.judge("second-run-same-instance", rs[2], rs[3]["files"]):
            return False
        if not ctx.judge("third-run-same-directory", rs[4], rs[5]["files"], written_only=rs[4].get("written")):
            return False
    # ---- pre-populated output directories --------------------------------------------------------
    if "prepop_self" in configs:
        o = ctx.path("pre_self")
        rs = ctx.child([{"op": "copytree", "src": ctx.path("R"), "dst": o}, {"op": "new", "xml": xml},
                        {"op": "generate", "out": o}, {"op": "digest", "dir": o}], "0")
        res.count("fault.prepopulated_output")
        key("prepop_self")
        if not ctx.judge("prepopulated-own-output", rs[2], rs[3]["files"], written_only=rs[2].get("written")):
            return False
    if "prepop_other" in configs or "prepop_other_noclean" in configs or "import" in configs:
        # the documented entry point: protocol.py clean + generate inside the scratch copy of the repo
        ws = ctx.ws
        ws.write_tree(plan["other_tree"])
        gen_dir = ws.generated_dir
        script = os.path.join(ws.root, "protocol.py")
        rs = ctx.child([{"op": "rmtree", "dir": gen_dir}, {"op": "protocol_py", "script": script, "args": ["generate"]}], "0")
        if rs[1].get("status") != "ok":
            return ctx.fail("protocol.py", "generation-failed", f"protocol.py generate failed on the second tree: {rs[1]}")
        if "prepop_other_noclean" in configs:
            o = ctx.path("pre_other")
            rs = ctx.child([{"op": "copytree", "src": gen_dir, "dst": o}, {"op": "new", "xml": xml},
                            {"op": "generate", "out": o}, {"op": "digest", "dir": o}], "0")
            res.count("fault.prepopulated_output")
            key("prepop_other_noclean")
            if not ctx.judge("prepopulated-other-tree", rs[2], rs[3]["files"], written_only=rs[2].get("written")):
                return False
        # a protocol.py run of the OTHER tree that fails part-way (I/O error on a seeded write), then the real one
        if "prepop_other" in configs:
            ws.write_tree(plan["other_tree"])
            k = random.Random(plan["fault_seed"] ^ 0x5A5A).randrange(1, 12)
            ctx.child([{"op": "protocol_py", "script": script, "args": ["generate"],
                        "fault": {"kind": random.Random(plan["fault_seed"]).choice(["torn", "oserror_open"]), "at": k}}], "0")
            res.count("fault.failed_protocol_py_run_before")
        # every third plan drives the packaging entry point (protocol_build_hook.py, packaging library stubbed) instead
        # of protocol.py itself for the runs below
        run_generate = {"op": "protocol_py", "script": script, "args": ["generate"]}
        if plan["fault_seed"] % 3 == 0 and os.path.exists(os.path.join(ws.root, "protocol_build_hook.py")):
            run_generate = {"op": "build_hook", "root": ws.root, "calls": ["initialize"]}
            res.count("probe.generation_through_build_hook")
        # protocol.py over a variant whose net/client, net/server and pub/server files differ; then the real tree
        if "prepop_other" in configs and random.Random(plan["fault_seed"] ^ 77).random() < 0.5:
            variant = edited_variant(tree)
            mixed = {rel: (variant[rel] if rel.count("/") == 2 else tree[rel]) for rel in tree}
            ws.write_tree(mixed)
            ctx.child([{"op": "rmtree", "dir": gen_dir}, run_generate], "0")
            res.count("fault.deep_spec_files_edited_before")
            for rel in sorted(tree):                      # edit in place, as a developer would: only the files that differ
                if mixed[rel] != tree[rel]:
                    with open(os.path.join(ws.xml_dir, rel), "w", encoding="utf-8") as f:
                        f.write(tree[rel])
        else:
            ws.write_tree(tree)
        rs = ctx.child([run_generate, {"op": "digest", "dir": gen_dir}], "0")
        res.count("fault.prepopulated_output")
        key("prepop_other_clean")
        if not ctx.judge("clean-then-generate-over-other-tree", rs[0], rs[1]["files"]):
            return False
        # ---- importability (fresh interpreter over the tree protocol.py just produced) -------------
        if "import" in configs:
            types = []
            for name, ed in spec.enums.items():
                types.append([name, ed.path, "enum"])
            for cd in spec.classes.values():
                if cd.kind != "case":
                    types.append([cd.name, cd.path, cd.kind])
            for t in types:
                t.append("eolib.protocol._generated" + ("." + t[1].replace("/", ".") if t[1] else "") + "." + snake_case(t[0]))
            rs = ctx.child([{"op": "import_check", "types": types}], plan["hash_seeds"][-1], sys_path=[ws.src])
            res.evaluations += 1
            res.count("probe.import_check")
            key("import")
            ctx.tr.ev("import", len(types), len(rs[0].get("problems") or []))     # texts carry scratch paths
            probs = rs[0].get("problems") or ([rs[0].get("error")] if rs[0].get("status") == "child-error" else [])
            if probs:
                what = "import-eolib" if probs[0].startswith("import eolib failed") else "class-not-exported"
                return ctx.fail("import", what, f"generated package is not a complete importable package: {probs[:3]} ({len(probs)} problems)")
    # ---- transient I/O errors, retry on the same instance -----------------------------------------
    frng = random.Random(plan["fault_seed"])
    thorough = plan.get("tier") == "thorough"
    if "transient" in configs:
        points = []
        ks = list(range(n_writes)) if (thorough and n_writes <= 80) else sorted(set([0, n_writes - 1] + [frng.randrange(n_writes) for _ in range(4)]))
        for k in ks:
            points.append({"kind": frng.choice(["oserror_open", "torn"]) if not thorough else "torn", "at": k})
            if thorough:
                points.append({"kind": "oserror_open", "at": k, "errno": frng.choice([28, 5, 24])})
        for k in sorted(set([0, n_reads - 1, frng.randrange(n_reads)])):
            points.append({"kind": "oserror_read", "at": k})
        points.append({"kind": "oserror_mkdir", "at": frng.randrange(max(1, n_mkdirs))})
        o = ctx.path("transient")
        steps = [{"op": "new", "xml": xml}]
        for f in points:
            steps += [{"op": "rmtree", "dir": o}, {"op": "generate", "out": o, "fault": f},
                      {"op": "generate", "out": o}, {"op": "digest", "dir": o}]
        rs = ctx.child(steps, "0")
        for i, f in enumerate(points):
            faulted, retry, dig = rs[2 + 4 * i], rs[3 + 4 * i], rs[4 + 4 * i]
            res.evaluations += 1
            ctx.tr.ev("faulted", f["kind"], f["at"], faulted.get("status"), faulted.get("fired"))
            if faulted.get("fired"):
                res.count("fault." + f["kind"])
                res.count("probe.retry_on_same_instance")
                pos = "first" if f["at"] == 0 else ("last" if f["at"] == n_writes - 1 else "middle")
                if f["kind"] in ("oserror_open", "torn"):
                    if f["at"] == 0:
                        res.count("probe.fault_on_first_write")
                    if f["at"] == n_writes - 1:
                        res.count("probe.fault_on_last_write")
                    if f["kind"] == "torn" and any(w.endswith("__init__.py") for w in faulted.get("written", [])[-1:]):
                        res.count("probe.torn_init_file")
                key("transient", f["kind"], pos)
                if faulted.get("status") == "ok":
                    return ctx.fail("io-error", "error-swallowed", f"generate() reported success although {f['kind']} struck at call {f['at']}")
            if not ctx.judge(f"retry-after-{f['kind']}", retry, dig["files"], written_only=retry.get("written")):
                return False
    # ---- crash mid-write, file loss, restart in a new process ---------------------------------------
    if "crash" in configs:
        ks = list(range(n_writes)) if (thorough and n_writes <= 80) else sorted(set([0, n_writes - 1, frng.randrange(n_writes)]))
        for k in ks:
            o = ctx.path("crash")
            kind = frng.choice(["crash", "crash", "crash_before"])
            r = ctx.child([{"op": "rmtree", "dir": o}, {"op": "new", "xml": xml},
                           {"op": "generate", "out": o, "fault": {"kind": kind, "at": k}}], "0", expect_crash=True)
            if r is not None:
                continue    # the fault point was not reached (fewer writes than planned)
            res.count("fault." + kind)
            lose = frng.random() < 0.6
            steps = []
            if lose:
                steps.append({"op": "lose", "dir": o, "seed": frng.randrange(1 << 30), "p": 0.3})
                res.count("fault.files_lost_after_crash")
            steps += [{"op": "new", "xml": xml}, {"op": "generate", "out": o}, {"op": "digest", "dir": o}]
            rs = ctx.child(steps, plan["hash_seeds"][0])
            res.count("probe.restart_after_crash")
            pos = "first" if k == 0 else ("last" if k == n_writes - 1 else "middle")
            key("crash", kind, pos)
            if not ctx.judge("restart-after-crash", rs[-2], rs[-1]["files"], written_only=rs[-2].get("written")):
                return False
    return True


def execute(plan, env):
    res = Result()
    res.evaluations = 0
    tr = Trace(keep=env.keep_trace)
    ctx = Ctx(env, plan, res, tr)
    try:
        run_configs(ctx)
    finally:
        shutil.rmtree(ctx.base, ignore_errors=True)
        env._skeleton_loaded = False     # the scratch package was regenerated by protocol.py
    if res.evaluations == 0:
        res.evaluations = 1
    res.digest = tr.digest()
    res.steps = tr.steps
    res.sample = {"files_in_reference_output": len(ctx.R or {}), "configs": plan["configs"],
                  "hash_seeds": plan["hash_seeds"], "generator_runs": res.evaluations}
    return res


def shrink(plan, still_fails, budget):
    """Keep only the failing configuration, then drop types that do not matter."""
    from .. import core
    res = core.probe(plan)
    if res.violation is None:
        return plan
    config = res.violation.get("config", "")
    best = plan
    mapping = {"identical-rerun": "again", "two-generator-objects": "two_objects", "same-instance-after-spec-edit": "edited", "relative-paths": "relpath", "unrelated-files": "noise", "hash-seed": "hash", "walk-order": "walk", "creation-order": "creation", "second-run-same-instance": "repeat",
               "third-run-same-directory": "repeat", "prepopulated-own-output": "prepop_self",
               "prepopulated-other-tree": "prepop_other_noclean", "clean-then-generate-over-other-tree": "prepop_other",
               "import": "import", "io-error": "transient", "restart-after-crash": "crash", "protocol.py": "prepop_other"}
    one = mapping.get(config) or ("transient" if config.startswith("retry-after") else None)
    if one:
        cand = dict(plan, configs=[one])
        budget[0] -= 1
        if still_fails(cand):
            best = cand
    # drop whole definitions one at a time (closure-preserving: a candidate the generator rejects is discarded)
    import xml.etree.ElementTree as ET
    progress = True
    while progress and budget[0] > 0:
        progress = False
        for rel in sorted(best["tree"]):
            root = ET.fromstring(best["tree"][rel])
            for idx in range(len(list(root))):
                el = list(root)[idx]
                if el.get("name") in ("PacketFamily", "PacketAction"):
                    continue
                root2 = ET.fromstring(best["tree"][rel])
                root2.remove(list(root2)[idx])
                cand_tree = dict(best["tree"])
                cand_tree[rel] = '<?xml version="1.0" encoding="UTF-8"?>\n' + ET.tostring(root2, encoding="unicode") + "\n"
                if budget[0] <= 0:
                    break
                budget[0] -= 1
                cand = dict(best, tree=cand_tree)
                if still_fails(cand):
                    best = cand
                    progress = True
                    break
            if progress:
                break
    return best


LEVEL_TEXT = (
    "Seeded search over configurations of the generator's environment, each executed by the real generator in a child "
    "interpreter: hash seeds, directory-walk permutations, creation order on disk, repeated runs on one instance, "
    "pre-populated output directories, injected I/O errors with retry, crashes mid-write with file loss and restart. "
    "Every run that reports success must have written exactly the reference run's files (path -> bytes), and the "
    "package produced through protocol.py must import in a fresh interpreter with every declared type exported from "
    "its generated package, its documented package and eolib. Sampling of trees and configurations; fault points are "
    "enumerated over all writes in the thorough tier when the run makes <= 80 writes."
)
LEVEL_NOTE = (
    "Trusted: the spec generator's notion of a valid tree (a rejection is reported, so a too-liberal generator would "
    "show as a false alarm and was triaged), SHA-256 comparison, the child-side seams."
)
TECHNIQUE = "deterministic simulation of the generator's environment (hash seed, walk order, disk state, I/O faults, crash/restart) in child interpreters vs. a reference run"
