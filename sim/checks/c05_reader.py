"""C05 - EoReader follows the chunked-reading model and never leaves its data.

Simulated system: a pool of real EoReader objects (the first over seeded data, the others
created by slice()), driven by a seeded operation history; every reader in the pool is
compared with an uncached reference model after every step.
"""

import importlib

from ..core import Result, Trace
from ..models.reader_model import ReaderModel, ModelRuntimeError, ModelValueError


class _Tile(int):
    """An application's int subclass whose text form is not the integer's."""

    def __str__(self):
        return f"tile#{int(self)}"

    __repr__ = __str__

    def __format__(self, spec):
        return f"tile#{int(self)}"


ID = "C05"
LEVEL = "exploration"
BATCH = 400
SHRINK_KEYS = ["ops", "data"]
BUDGET = {"quick": 30.0, "thorough": 900.0}
RULE = (
    "one evaluation = one seeded history (1-80 public reader operations over a pool of readers "
    "created by slice()) on seeded data of 0-64 bytes biased to 0x00/0x01/0xFE/0xFF; distinct = "
    "distinct abstract transitions (operation kind, chunked mode, position vs. break "
    "{before, at, after}, break {inside data, at end}, read clipped by end of chunk/data?); "
    "a transition is non-trivial when the reader is non-empty"
)
ASSUMPTIONS = [
    "reference model written from the documented chunked-reading rules (uncached break search)",
    "Python's cp1252 codec with errors='replace' is trusted on both sides",
    "negative length arguments are outside the property and not generated (slice negatives are: ValueError is documented)",
]
COMPONENTS = {
    "real": ["eolib.data.EoReader (all public methods)", "eolib.data.decode_number", "eolib.data.decode_string"],
    "stub_or_harness": ["operation-history generator", "ReaderModel reference model"],
}
PROBES = [
    "chunked_on_after_passing_break", "next_chunk_at_end_of_data", "mode_toggle_with_cached_break",
    "slice_of_slice", "slice_in_chunked_parent", "overread_inside_integer_at_break",
    "operation_not_followed_by_a_look_at_the_state", "returned_array_looked_at_again", "two_reader_threads_interleaved", "length_of_a_subclass_type", "next_chunk_outside_chunked_mode", "slice_negative_argument", "next_chunk_moves_backwards",
    "exhausted_read",
]
FAULT_KINDS = ["preemption_between_lines", "end_of_chunk_mid_read", "end_of_data_mid_read"]

READ_OPS = [
    "get_byte", "get_bytes", "get_char", "get_short", "get_three", "get_int", "get_string",
    "get_fixed_string", "get_encoded_string", "get_fixed_encoded_string",
]
WIDTH = {"get_byte": 1, "get_char": 1, "get_short": 2, "get_three": 3, "get_int": 4}


def _gen_data(rng):
    if rng.random() < 0.01:
        # long data with few break bytes: chunks of several thousand bytes
        n = rng.randrange(4000, 12000)
        return [0xFF if rng.random() < 0.0003 else rng.randrange(1, 254) for _ in range(n)]
    n = rng.choice([0, 1, 2, 3, 5, 8, 13, 21, 34, 64]) if rng.random() < 0.5 else rng.randrange(0, 65)
    style = rng.random()
    out = []
    for _ in range(n):
        r = rng.random()
        if style < 0.45:
            out.append(rng.choice([0x00, 0x01, 0xFE, 0xFF]) if r < 0.5 else rng.randrange(256))
        elif style < 0.8:
            out.append(0xFF if r < 0.15 else (0xFE if r < 0.25 else rng.randrange(1, 254)))
        else:
            out.append(rng.randrange(256))
    return out


def generate(streams, tier):
    rng = streams.get("plan")
    data = _gen_data(streams.get("data"))
    n_ops = rng.randrange(1, 81)
    ops = []
    p_mode = rng.choice([0.05, 0.15, 0.3])
    p_next = rng.choice([0.05, 0.15, 0.3])
    p_slice = rng.choice([0.02, 0.08, 0.2])
    for _ in range(n_ops):
        who = rng.randrange(0, 8)
        r = rng.random()
        if r < p_mode:
            ops.append([who, "set_mode", rng.random() < 0.6])
        elif r < p_mode + p_next:
            ops.append([who, "next_chunk"])
        elif r < p_mode + p_next + p_slice:
            def arg():
                x = rng.random()
                if x < 0.3:
                    return None
                if x < 0.8:
                    return rng.randrange(0, len(data) + 1)
                if x < 0.97:
                    return len(data) + rng.randrange(1, 5)
                return -rng.randrange(1, 4)
            ops.append([who, "slice", arg(), arg()])
        else:
            op = rng.choice(READ_OPS)
            if op == "get_bytes":
                ops.append([who, op, rng.randrange(0, len(data) + 4)])
            elif op in ("get_fixed_string", "get_fixed_encoded_string"):
                ops.append([who, op, rng.randrange(0, len(data) + 4), rng.random() < 0.5])
            else:
                ops.append([who, op])
    plan = {"data": data, "ops": ops, "buffer": rng.choice(["bytes", "bytes", "bytearray", "memoryview", "window"])}
    if rng.random() < 0.25:
        # the harness only looks at what the operations return; position and remaining are looked at when all is done
        # (looking after every operation could itself repair lazily computed state)
        plan["blind"] = True
    if rng.random() < 0.02:
        # two caller threads, each with a reader of its own over its own copy of the data (sim/interleave.py)
        plan["interleave"] = [rng.randrange(1, 9) for _ in range(rng.randrange(4, 80))]
    return plan


def concurrent_readers(plan, EoReader, res, tr):
    """The plan's operations (those of reader #0, slices left out) run by two caller threads at the same time, each on
    a reader of its own; each must see exactly what a single caller sees."""
    from ..interleave import Interleaver, InterleaveStall
    ops = [op[1:] for op in plan["ops"] if op[1] != "slice"]
    if not ops:
        return None
    data = bytes(plan["data"])

    def caller():
        r = EoReader(bytes(data))
        seen = []
        for op in ops:
            try:
                if op[0] == "set_mode":
                    r.chunked_reading_mode = bool(op[1])
                    out = None
                elif op[0] == "next_chunk":
                    out = r.next_chunk()
                else:
                    out = getattr(r, op[0])(*op[1:])
                    if isinstance(out, (bytearray, memoryview)):
                        out = bytes(out)
            except Exception as e:  # noqa
                out = ("raised", type(e).__name__)
            seen.append((out, r.position, r.remaining))
        return seen

    alone = caller()
    il = Interleaver(plan["interleave"], lambda filename: "eolib-verif-" in filename)
    try:
        results, errors = il.run(caller, caller)
    except InterleaveStall as e:
        return ("concurrent-readers", "stalled", f"two caller threads with a reader each did not both finish: {e}")
    res.count("probe.two_reader_threads_interleaved")
    res.count("fault.preemption_between_lines", il.switches)
    tr.ev("interleave", il.switches, tuple(il.lines))
    for i in (0, 1):
        if errors[i] is not None or results[i] != alone:
            k = next((j for j, (a, b) in enumerate(zip(results[i] or [], alone)) if a != b), None)
            return ("concurrent-readers", ops[k][0] if k is not None else "run",
                    f"caller thread {i} reading from its own reader while another thread read from another one saw "
                    f"{results[i][k] if k is not None else errors[i]!r} at operation {k} ({ops[k] if k is not None else ''}); alone it sees "
                    f"{alone[k] if k is not None else ''} (schedule {plan['interleave'][:12]}..., {il.switches} switches)")
    return None


def _abstract(m):
    b = m.brk
    rel = "before" if m.pos < b else ("at" if m.pos == b else "after")
    return rel, ("inside" if b < len(m.data) else "end")


def execute(plan, env):
    env.skeleton()
    EoReader = importlib.import_module("eolib.data.eo_reader").EoReader
    res = Result()
    tr = Trace(keep=env.keep_trace)
    data = bytes(plan["data"])
    buf = {"bytes": bytes, "bytearray": bytearray, "memoryview": lambda b: memoryview(bytearray(b)),
           # a window into a larger buffer whose surroundings hold break bytes
           "window": lambda b: memoryview(b"\x01\xff\x02" + b + b"\x03\xff\x04\xff")[3:3 + len(b)]}[plan.get("buffer", "bytes")](data)
    res.count("buffer_" + plan.get("buffer", "bytes"))
    pool = [(EoReader(buf), ReaderModel(data), 0)]  # real, model, slice depth
    kept = []       # mutable results handed out earlier: (object, its content when handed out, step, operation)

    def fail(kind, op, mode, detail, step):
        res.violation = {
            "kind": kind,
            "signature": f"C05|{kind}|{op}|chunked={bool(mode)}",
            "detail": detail,
            "step": step,
        }

    def check_all(step, op):
        for j, (r, m, _) in enumerate(pool):
            pos, rem, mode = r.position, r.remaining, r.chunked_reading_mode
            if not (0 <= pos <= len(m.data)):
                return fail("invariant-position", op, m.chunked,
                            f"reader#{j} position {pos} outside 0..{len(m.data)}", step)
            if rem < 0:
                return fail("invariant-remaining", op, m.chunked, f"reader#{j} remaining {rem} < 0", step)
            if pos != m.pos:
                return fail("position", op, m.chunked,
                            f"reader#{j} position {pos}, model {m.pos} (data={list(m.data)})", step)
            if rem != m.remaining:
                return fail("remaining", op, m.chunked,
                            f"reader#{j} remaining {rem}, model {m.remaining} (data={list(m.data)} pos={pos})", step)
            if bool(mode) != m.chunked:
                return fail("mode", op, m.chunked, f"reader#{j} mode {mode}, model {m.chunked}", step)
        return None

    for step, op in enumerate(plan["ops"]):
        who = op[0] % len(pool)
        r, m, depth = pool[who]
        name = op[1]
        mode0 = m.chunked
        rel, where = _abstract(m)
        rem0 = m.remaining
        clipped = False
        got = want = None
        got_exc = want_exc = None
        if name == "set_mode":
            if m.pos > m.brk and op[2] and not m.chunked:
                res.count("probe.chunked_on_after_passing_break")
            if m.chunk_start > 0 or m.pos > 0:
                res.count("probe.mode_toggle_with_cached_break")
            m.chunked = bool(op[2])
            try:
                r.chunked_reading_mode = bool(op[2])
            except Exception as e:  # noqa
                got_exc = type(e).__name__
        elif name == "next_chunk":
            if not m.chunked:
                res.count("probe.next_chunk_outside_chunked_mode")
            else:
                if m.brk == len(m.data):
                    res.count("probe.next_chunk_at_end_of_data")
                if m.pos > m.brk + 1:
                    res.count("probe.next_chunk_moves_backwards")
            try:
                m.next_chunk()
            except ModelRuntimeError:
                want_exc = "RuntimeError"
            try:
                r.next_chunk()
            except Exception as e:
                got_exc = type(e).__name__
        elif name == "slice":
            try:
                sm = m.slice(op[2], op[3])
            except ModelValueError:
                sm = None
                want_exc = "ValueError"
                res.count("probe.slice_negative_argument")
            try:
                sr = r.slice(index=op[2], length=op[3]) if step % 3 == 1 else r.slice(op[2], op[3])
            except Exception as e:
                sr = None
                got_exc = type(e).__name__
            if sm is not None and sr is not None:
                if depth >= 1:
                    res.count("probe.slice_of_slice")
                if m.chunked:
                    res.count("probe.slice_in_chunked_parent")
                if len(pool) < 8:
                    pool.append((sr, sm, depth + 1))
                else:  # still compare the new slice once, through a full read
                    got, want = bytes(sr.get_bytes(10**6)), sm.get_bytes(10**6)
        else:
            args = op[2:]
            need = WIDTH.get(name)
            if name in ("get_bytes", "get_fixed_string", "get_fixed_encoded_string"):
                need = args[0]
            if need is not None and need > rem0:
                clipped = True
                res.count("fault.end_of_chunk_mid_read" if (m.chunked and m.brk < len(m.data))
                          else "fault.end_of_data_mid_read")
                if rem0 == 0:
                    res.count("probe.exhausted_read")
                if m.chunked and m.brk < len(m.data) and rem0 > 0 and name in ("get_three", "get_int", "get_short"):
                    res.count("probe.overread_inside_integer_at_break")
            try:
                want = getattr(m, name)(*args)
            except ModelValueError:
                want_exc = "ValueError"
            try:
                if step % 5 == 2 and name in ("get_fixed_string", "get_fixed_encoded_string"):
                    got = getattr(r, name)(length=args[0], padded=args[1])      # documented parameter names
                elif step % 5 == 2 and name == "get_bytes":
                    got = r.get_bytes(length=args[0])
                elif step % 9 == 4 and args and type(args[0]) is int:
                    # the same length in another dress (bool / an int subclass with its own text form)
                    got = getattr(r, name)(bool(args[0]) if args[0] in (0, 1) else _Tile(args[0]), *args[1:])
                    res.count("probe.length_of_a_subclass_type")
                else:
                    got = getattr(r, name)(*args)
                if isinstance(got, (bytearray, memoryview)):
                    kept.append((got, bytes(got), step, name))        # the caller keeps what it was given
                    got = bytes(got)
            except Exception as e:
                got_exc = type(e).__name__
        tr.ev(step, who, name, tuple(op[2:]), got if not isinstance(got, bytes) else got.hex(), got_exc)
        if len(m.data) > 0:
            res.keys.add(f"{name}|{int(mode0)}|{rel}|{where}|{int(clipped)}")
        if got_exc != want_exc:
            fail("exception", name, mode0,
                 f"step {step}: {name}{tuple(op[2:])} raised {got_exc}, documented outcome {want_exc}", step)
            break
        if got != want:
            fail("value", name, mode0,
                 f"step {step}: {name}{tuple(op[2:])} returned {got!r}, model {want!r} "
                 f"(data={list(m.data)}, reader#{who})", step)
            break
        if not plan.get("blind") or step == len(plan["ops"]) - 1:
            check_all(step, name)
        else:
            res.count("probe.operation_not_followed_by_a_look_at_the_state")
        if res.violation:
            break
    if res.violation is None:
        for obj, was, at, opname in kept:
            res.count("probe.returned_array_looked_at_again")
            if bytes(obj) != was:
                fail("value", opname + "-retained", False, f"the array returned by {opname} at step {at} held {was.hex()[:60]}; after the later "
                     f"operations it holds {bytes(obj).hex()[:60]}", at)
                break
    if plan.get("interleave") and res.violation is None:
        v = concurrent_readers(plan, EoReader, res, tr)
        if v:
            fail(v[0], v[1], False, v[2], len(plan["ops"]))
    res.digest = tr.digest()
    res.steps = tr.steps
    res.sample = {"data_hex": bytes(plan["data"]).hex(), "first_ops": [str(o) for o in plan["ops"][:8]], "n_ops": len(plan["ops"])}
    if env.keep_trace:
        res.events = tr.events
    return res

LEVEL_TEXT = (
    "Seeded search over reader operation histories (typed reads, over-reads, mode switches, next_chunk, "
    "slices of slices) with every reader in the pool compared against an uncached reference model after "
    "every step; ~10^5 histories / 4*10^6 steps per quick run. Sampling, not proof; the reader has no I/O "
    "or concurrency, so its only 'fault' is end-of-chunk/end-of-data striking mid-read, which is counted."
)
LEVEL_NOTE = (
    "Trusted: the reference model (sim/models/reader_model.py, written from the documented rules), Python's "
    "cp1252 codec. Negative length arguments are outside the property and not generated."
)
TECHNIQUE = "deterministic seeded history simulation vs. reference model (end-of-chunk/data over-reads as the fault dimension); two caller threads under a seeded line-level scheduler"
