#!/venv/bin/python
"""Sensitivity self-test: apply small source mutations, one at a time, to a scratch copy of
the repository; each must (a) still pass the pinned baseline tests and (b) make the owning
check exit 1 with a VIOLATION line in its quick tier.

  tools/mutants.py [--props C05,C09] [--ids name,...] [--skip-baseline] [--tier quick]
Results are written to /verif/evidence/mutants.json.
"""
import argparse
import json
import os
import shutil
import subprocess
import sys
import tempfile
import time

HERE = os.path.dirname(os.path.dirname(os.path.abspath(__file__)))
sys.path.insert(0, HERE)
from tools.mutant_catalogue import MUTANTS  # noqa

PY = "/venv/bin/python"


def make_copy(repo):
    base = "/dev/shm" if os.path.isdir("/dev/shm") else tempfile.gettempdir()
    root = tempfile.mkdtemp(prefix="eolib-verif-mut-", dir=base)
    ign = shutil.ignore_patterns("__pycache__", "*.pyc", ".git", "docs", ".benchmarks")
    for name in os.listdir(repo):
        if name in (".git", "docs", ".benchmarks", ".github"):
            continue
        src = os.path.join(repo, name)
        dst = os.path.join(root, name)
        if os.path.isdir(src):
            shutil.copytree(src, dst, ignore=ign)
        else:
            shutil.copy(src, dst)
    return root


def apply(root, m):
    for edit in m["edits"]:
        path = os.path.join(root, edit["file"])
        s = open(path, encoding="utf-8").read()
        n = s.count(edit["old"])
        want = edit.get("count", 1)
        if n != want:
            raise RuntimeError(f"{m['id']}: expected {want} occurrence(s) of {edit['old']!r} in {edit['file']}, found {n}")
        s = s.replace(edit["old"], edit["new"])
        open(path, "w", encoding="utf-8").write(s)


def baseline(root):
    env = dict(os.environ, PYTHONPATH=os.path.join(root, "src"), PYTHONDONTWRITEBYTECODE="1")
    p = subprocess.run([PY, "-m", "pytest", "-q", "-p", "no:cacheprovider", "--timeout=900",
                        "--continue-on-collection-errors", "--no-header", "-rN"],
                       cwd=root, env=env, capture_output=True, text=True)
    tail = p.stdout.strip().splitlines()[-1] if p.stdout.strip() else ""
    # expected: "140 passed, 2 errors" (the two uncollectable modules)
    ok = "140 passed" in tail and "failed" not in tail
    return ok, tail


def main():
    ap = argparse.ArgumentParser()
    ap.add_argument("--props")
    ap.add_argument("--ids")
    ap.add_argument("--skip-baseline", action="store_true")
    ap.add_argument("--tier", default="quick")
    ap.add_argument("--repo", default="/repo")
    ap.add_argument("--budget", type=float)
    args = ap.parse_args()
    props = args.props.split(",") if args.props else None
    ids = args.ids.split(",") if args.ids else None
    results = []
    for m in MUTANTS:
        owners = [m["property"]] + list(m.get("also", []))
        if props and not set(owners) & set(props):
            continue
        if ids and m["id"] not in ids:
            continue
        root = make_copy(args.repo)
        try:
            apply(root, m)
            base_ok, tail = (True, "skipped") if args.skip_baseline else baseline(root)
            for prop in owners:
                if props and prop not in props:
                    continue
                t0 = time.time()
                cmd = [PY, os.path.join(HERE, "run.py"), "check", prop, "--tier", args.tier,
                       "--repo", root, "--no-evidence"]
                if args.budget:
                    cmd += ["--budget", str(args.budget)]
                p = subprocess.run(cmd, capture_output=True, text=True)
                killed = p.returncode == 1 and "VIOLATION property=" + prop in p.stdout
                sig = [l.strip() for l in p.stdout.splitlines() if l.strip().startswith("signature:")]
                results.append({"id": m["id"] + "@" + prop, "property": prop, "what": m["what"],
                                "baseline_still_passes": base_ok, "baseline_tail": tail,
                                "killed": killed, "exit": p.returncode, "signatures": sig[:3],
                                "wall_s": round(time.time() - t0, 1)})
                status = "KILLED" if killed else f"SURVIVED(exit {p.returncode})"
                print(f"{prop} {m['id']:<48} baseline={'pass' if base_ok else 'FAIL'} {status} {sig[:1]}", flush=True)
                if not killed and p.returncode not in (0, 1):
                    print(p.stderr[-1500:])
        finally:
            shutil.rmtree(root, ignore_errors=True)
    out = os.path.join(HERE, "evidence", "mutants.json")
    prev = []
    if os.path.exists(out) and (props or ids):
        prev = [r for r in json.load(open(out))["results"] if r["id"] not in {x["id"] for x in results}]
    allr = sorted(prev + results, key=lambda r: (r["property"], r["id"]))
    json.dump({"results": allr, "killed": sum(r["killed"] for r in allr), "total": len(allr)},
              open(out, "w"), indent=1)
    survivors = [r["id"] for r in results if not r["killed"] or not r["baseline_still_passes"]]
    print(f"{len(results) - len(survivors)}/{len(results)} killed with baseline intact; problems: {survivors}")
    return 1 if survivors else 0


if __name__ == "__main__":
    sys.exit(main())
