#!/venv/bin/python
"""Regenerates /verif/MANIFEST.json from the check modules that exist (and validates it)."""
import importlib
import json
import os
import sys

HERE = os.path.dirname(os.path.dirname(os.path.abspath(__file__)))
sys.path.insert(0, HERE)
from sim import core  # noqa

PY = "/venv/bin/python"
NOT_APPLICABLE = {
    "C01": "pure function of (spec, value) on a fresh writer/reader: no state, schedule, nondeterminism or fault for a simulator to own; deciding it is property-based testing against a model, not simulation (DESIGN 3.C01)",
    "C02": "pure function of (spec, object) compared with an independent reading of the XML: translation validation / model-based input testing, nothing to schedule or fault (DESIGN 3.C02)",
    "C07": "pure arithmetic on one integer or <=4 bytes; exhaustive enumeration or proof decides it, simulation adds nothing (DESIGN 3.C07)",
    "C08": "pure in-place byte transform determined by (byte, position parity, length parity); a table enumeration decides it (DESIGN 3.C08)",
    "C10": "pure in-place functions of a byte string and a multiple; no state across calls, nondeterminism or partial failure (DESIGN 3.C10)",
    "C11": "pure arithmetic over a finite input range; the right tool is exhaustive enumeration of the 16,194,277 challenges (DESIGN 3.C11)",
    "C16": "whether serialize(spec, object) raises is a pure function of its arguments; search space is programs x single-field edits, i.e. input testing (DESIGN 3.C16)",
    "C17": "accept/reject is a pure function of the XML; catalogue-of-rule-violations mutation testing, no schedule/fault/history (DESIGN 3.C17)",
}


def main():
    checks = []
    claimed = []
    for cid in sorted(core.CHECKS):
        try:
            mod = importlib.import_module(core.CHECKS[cid])
        except ModuleNotFoundError:
            continue
        if not getattr(mod, "REGISTERED", True):
            continue
        claimed.append(cid)
        checks.append({
            "property_id": cid,
            "quick_cmd": f"{PY} run.py check {cid} --tier quick",
            "thorough_cmd": f"{PY} run.py check {cid} --tier thorough",
            "evidence_file": f"/verif/evidence/{cid}.json",
            "replay_cmd_template": f"{PY} run.py replay {{path}}",
            "engine": "sim",
            "level_claimed": {
                "category": mod.LEVEL,
                "text": mod.LEVEL_TEXT,
                "design_ref": f"DESIGN.md 3.{cid}",
            },
            "level_note": mod.LEVEL_NOTE,
            "technique": mod.TECHNIQUE,
        })
    all_ids = [json.loads(l)["id"] for l in open(os.path.join(HERE, "properties.jsonl"))]
    na = []
    for pid in all_ids:
        if pid in claimed:
            continue
        reason = NOT_APPLICABLE.get(pid) or "check not built yet (planned, see DESIGN.md section 3.%s)" % pid
        na.append({"property_id": pid, "reason": reason})
    manifest = {
        "version": 1,
        "setup_cmd": f"{PY} run.py setup",
        "hooks": {
            "guard": "EOLIB_VERIF",
            "enable": "no hooks exist: every seam is reached from outside (module attributes, subclassing, child-interpreter environment); the guard name is reserved and unused",
            "baseline_off_cmd": "cd /repo && /venv/bin/python -m pytest -ra -q -p no:cacheprovider --timeout=900 --continue-on-collection-errors",
            "source_commits": [],
            "add_only": True,
        },
        "engines": [{
            "name": "sim",
            "path": "/verif/sim",
            "serves_properties": claimed,
            "kind_free_text": "hand-written deterministic simulator: seeded plan generation, plan execution against real eolib code (scratch copy rebuilt from /repo's working tree, real generator run per spec tree) and reference models, fault injection through proxies/seams, ddmin minimisation, JSON replay files confirmed in a fresh interpreter",
        }],
        "checks": checks,
        "notes": "Exit codes: 0 held on everything explored; 1 with VIOLATION line(s); 2 harness error (never expected on the unchanged tree). VERIF_SEED, VERIF_TIER, VERIF_BUDGET_S, VERIF_WORKERS are honoured. Known findings: /verif/known_findings.json.",
        "not_applicable": na,
    }
    path = os.path.join(HERE, "MANIFEST.json")
    with open(path, "w") as f:
        json.dump(manifest, f, indent=1)
        f.write("\n")
    try:
        import jsonschema
        jsonschema.validate(manifest, json.load(open("/root/.vp/MANIFEST.schema.json")))
        print("MANIFEST valid;", len(checks), "checks,", len(na), "not applicable")
    except ImportError:
        print("MANIFEST written (jsonschema not available in this interpreter)")


if __name__ == "__main__":
    main()
