#!/venv/bin/python
"""Runs the registered checks against the seeded breaking changes kept under /verif/seeded/<id>/.

For each change: (1) its demo passes on the unmodified repo, (2) the patch applies to a scratch
copy, (3) the pinned baseline still passes there, (4) the demo fails there, (5) the owning
check (quick tier) reports a VIOLATION there.  Results: /verif/evidence/seeded.json.
  tools/seeded.py [--ids C05-1,...] [--budget S] [--skip-demo]
"""
import argparse
import json
import os
import shutil
import subprocess
import sys
import time

HERE = os.path.dirname(os.path.dirname(os.path.abspath(__file__)))
sys.path.insert(0, HERE)
from tools.mutants import make_copy, baseline, PY  # noqa


def main():
    ap = argparse.ArgumentParser()
    ap.add_argument("--ids")
    ap.add_argument("--budget", type=float)
    ap.add_argument("--skip-demo", action="store_true")
    ap.add_argument("--tier", default="quick")
    ap.add_argument("--repo", default="/repo")
    ap.add_argument("--shard", help="i/n: only every n-th change starting with the i-th (for parallel runs)")
    ap.add_argument("--workers", type=int)
    ap.add_argument("--out", help="write results here instead of evidence/seeded.json (merge with --merge)")
    ap.add_argument("--merge", nargs="*", help="merge these result files into evidence/seeded.json and exit")
    args = ap.parse_args()
    if args.merge is not None:
        allr = {}
        out = os.path.join(HERE, "evidence", "seeded.json")
        for f in args.merge:
            for x in json.load(open(f))["results"]:
                allr[x["id"]] = x
        allr = [allr[k] for k in sorted(allr)]
        json.dump({"results": allr,
                   "detected": sum(1 for x in allr if x.get("status") not in ("neutralised", "out_of_scope") and x.get("checks", {}).get(x["property"], {}).get("detected")),
                   "active": sum(1 for x in allr if x.get("status") not in ("neutralised", "out_of_scope")),
                   "total": len(allr)}, open(out, "w"), indent=1)
        print("merged", len(allr))
        return 0
    base = os.path.join(HERE, "seeded")
    ids = args.ids.split(",") if args.ids else sorted(os.listdir(base))
    if args.shard:
        i, n = (int(x) for x in args.shard.split("/"))
        ids = ids[i::n]
    results = []
    for sid in ids:
        d = os.path.join(base, sid)
        if not os.path.isdir(d):
            continue
        meta = json.load(open(os.path.join(d, "meta.json")))
        root = make_copy(args.repo)
        r = {"id": sid, "property": meta["property"], "needs": meta.get("needs"), "status": meta.get("status", "active")}
        try:
            p = subprocess.run(["patch", "-p1", "-s", "-i", os.path.join(d, "patch.diff")], cwd=root, capture_output=True, text=True)
            r["applies"] = p.returncode == 0
            if not r["applies"]:
                r["error"] = (p.stdout + p.stderr)[-400:]
                results.append(r)
                print(sid, "PATCH DOES NOT APPLY", r["error"])
                continue
            r["baseline_still_passes"], r["baseline_tail"] = baseline(root)
            if not args.skip_demo:
                demo = os.path.join(d, "demo.py")
                p0 = subprocess.run([PY, demo, args.repo], capture_output=True, text=True, timeout=600)
                p1 = subprocess.run([PY, demo, root], capture_output=True, text=True, timeout=600)
                r["demo_on_pristine_exit"], r["demo_on_patched_exit"] = p0.returncode, p1.returncode
            detected = {}
            for prop in [meta["property"]] + list(meta.get("also", [])):
                t0 = time.time()
                cmd = [PY, os.path.join(HERE, "run.py"), "check", prop, "--tier", args.tier, "--repo", root, "--no-evidence"]
                if args.budget:
                    cmd += ["--budget", str(args.budget)]
                if args.workers:
                    cmd += ["--workers", str(args.workers)]
                p = subprocess.run(cmd, capture_output=True, text=True)
                sig = [l.strip() for l in p.stdout.splitlines() if l.strip().startswith("signature:")]
                detected[prop] = {"detected": p.returncode == 1 and f"VIOLATION property={prop}" in p.stdout,
                                  "exit": p.returncode, "signatures": sig[:3], "wall_s": round(time.time() - t0, 1)}
                if p.returncode not in (0, 1):
                    detected[prop]["stderr"] = p.stderr[-600:]
            r["checks"] = detected
            results.append(r)
            print(sid, "baseline", "pass" if r["baseline_still_passes"] else "FAIL",
                  "demo", r.get("demo_on_pristine_exit"), "->", r.get("demo_on_patched_exit"),
                  {k: ("DETECTED " + str(v["signatures"][:1]) if v["detected"] else f"MISSED(exit {v['exit']})") for k, v in detected.items()}, flush=True)
        finally:
            shutil.rmtree(root, ignore_errors=True)
    out = args.out or os.path.join(HERE, "evidence", "seeded.json")
    prev = []
    if os.path.exists(out) and args.ids and not args.out:
        prev = [x for x in json.load(open(out))["results"] if x["id"] not in {y["id"] for y in results}]
    allr = sorted(prev + results, key=lambda x: x["id"])
    json.dump({"results": allr,
               "detected": sum(1 for x in allr if x.get("status") not in ("neutralised", "out_of_scope") and x.get("checks", {}).get(x["property"], {}).get("detected")),
               "active": sum(1 for x in allr if x.get("status") not in ("neutralised", "out_of_scope")),
               "total": len(allr)}, open(out, "w"), indent=1)
    return 0


if __name__ == "__main__":
    sys.exit(main())
