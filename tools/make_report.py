#!/venv/bin/python
"""Rewrites the generated tables of DESIGN.md section 9 from evidence/mutants.json and evidence/seeded.json."""
import json
import os
import re

HERE = os.path.dirname(os.path.dirname(os.path.abspath(__file__)))


def sig_source(r, chk):
    return chk.get("signatures")


def main():
    mut = json.load(open(os.path.join(HERE, "evidence", "mutants.json")))
    seeded = json.load(open(os.path.join(HERE, "evidence", "seeded.json")))
    lines = []
    lines.append("#### 9.1 Mutation catalogue (tools/mutants.py, quick tier, 15 s budget per run)\n")
    by = {}
    for r in mut["results"]:
        by.setdefault(r["property"], []).append(r)
    lines.append("| check | mutants killed / run | signatures seen |")
    lines.append("|---|---|---|")
    for prop in sorted(by):
        rs = by[prop]
        sigs = sorted({s.replace("signature: ", "").split("|")[1] for r in rs for s in r["signatures"][:1]})
        lines.append(f"| {prop} | {sum(r['killed'] for r in rs)} / {len(rs)} | {', '.join(sigs)} |")
    survivors = [r["id"] for r in mut["results"] if not r["killed"]]
    lines.append("")
    lines.append(f"Total: {mut['killed']} of {mut['total']} (mutant, check) pairs killed, every one with the pinned baseline "
                 f"still at 140 passed." + (f" Not killed: {survivors}." if survivors else ""))
    lines.append("")
    lines.append("#### 9.2 Independently seeded changes (tools/seeded.py, quick tier, 25 s budget per run)\n")
    lines.append("The last full run was made in four parallel shards with 4 worker processes per check run (instead of the 16 the "
                 "registered quick commands use); the three changes it missed that way (C18-2, C18-r16-2, C19-r18-2) were run again "
                 "with the registered worker count (40 s) and are detected. Every row: the patch applies, the pinned baseline still "
                 "reports 140 passed, the author's demo exits 0 on the unchanged tree and 1 on the patched one.\n")
    lines.append("| id | files touched | what it needs to manifest (author's words, abridged) | detected by | signature |")
    lines.append("|---|---|---|---|---|")
    for r in seeded["results"]:
        meta = json.load(open(os.path.join(HERE, "seeded", r["id"], "meta.json")))
        chk = r.get("checks", {}).get(r["property"], {})
        others = [k for k, v in r.get("checks", {}).items() if v.get("detected") and k != r["property"]]
        if r.get("status") == "neutralised":
            status = "neutralised by a fix (see meta.json)"
        elif r.get("status") == "out_of_scope":
            status = "outside the property's domain (see meta.json)"
        elif chk.get("detected"):
            status = r["property"] + ("".join(", " + o for o in others))
        elif others:
            status = "**" + ", ".join(others) + "** (not by " + r["property"] + ")"
        else:
            status = "**missed**"
        if not sig_source(r, chk):
            pass
        anychk = chk if chk.get("signatures") else next((v for v in r.get("checks", {}).values() if v.get("signatures")), {})
        sig = (anychk.get("signatures") or [""])[0].replace("signature: ", "")
        files = ", ".join(os.path.basename(f) for f in meta.get("files_touched", []))
        needs = re.sub(r"\s+", " ", meta.get("needs", "")).strip("# ").replace("|", "/")[:110]
        lines.append(f"| {r['id']} | {files} | {needs} | {status} | `{sig}` |")
    lines.append("")
    by_other = sum(1 for r in seeded["results"] if r.get("status", "active") == "active"
                   and not r.get("checks", {}).get(r["property"], {}).get("detected")
                   and any(v.get("detected") for v in r.get("checks", {}).values()))
    lines.append(f"Detected by the owning property's check: {seeded['detected']} of {seeded['active']} active seeded changes; "
                 f"{by_other} more are detected by another property's check (noted in the table); "
                 f"{seeded['total'] - seeded['active']} are not counted (neutralised by a repair of the underlying weakness, or judged outside the property's domain - see their meta.json).")
    block = "\n".join(lines)
    p = os.path.join(HERE, "DESIGN.md")
    s = open(p).read()
    start, end = "<!-- BEGIN GENERATED REPORT -->", "<!-- END GENERATED REPORT -->"
    if start in s:
        s = s[: s.index(start) + len(start)] + "\n" + block + "\n" + s[s.index(end):]
        open(p, "w").write(s)
        print("DESIGN.md section 9 tables rewritten")
    else:
        print(block)


if __name__ == "__main__":
    main()
