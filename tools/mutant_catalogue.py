"""Catalogue of small source mutations used to prove the checks are sensitive (DESIGN 1.6)."""

R = "src/eolib/data/eo_reader.py"
W = "src/eolib/data/eo_writer.py"
S = "src/eolib/packet/sequence_start.py"
Q = "src/eolib/packet/packet_sequencer.py"
F = "protocol_code_generator/generate/field_code_generator.py"
O = "protocol_code_generator/generate/object_code_generator.py"
SW = "protocol_code_generator/generate/switch_code_generator.py"
T = "protocol_code_generator/type/type_factory.py"
E = "src/eolib/protocol/protocol_enum_meta.py"

MUTANTS = [
    # ---- C05 reader
    dict(id="reader-remaining-without-min", property="C05", what="remaining ignores position past the break",
         edits=[dict(file=R, old="return self._next_break - min(self.position, self._next_break)",
                     new="return max(0, self._next_break - self.position) if self.position <= self._next_break + 1 else self._next_break - self.position")]),
    dict(id="reader-next-chunk-keeps-break", property="C05", also=["C06"], what="next_chunk does not skip the break byte",
         edits=[dict(file=R, old="            # Skip the break byte\n            self._position += 1\n", new="            # Skip the break byte\n            self._position += 0\n")]),
    dict(id="reader-break-scan-from-position", property="C05", what="break search starts at position instead of chunk start",
         edits=[dict(file=R, old="for i in range(self._chunk_start, len(self._data)):", new="for i in range(self._position, len(self._data)):")]),
    dict(id="reader-break-cache-stale", property="C05", what="next_chunk does not refresh the cached break",
         edits=[dict(file=R, old="        self._chunk_start = self._position\n        self._next_break = self._find_next_break_index()\n",
                     new="        self._chunk_start = self._position\n        if self._next_break + 1 < self._position:\n            self._next_break = self._find_next_break_index()\n")]),
    dict(id="reader-cache-refreshed-on-mode-set", property="C05", what="break recomputed from position on every mode set",
         edits=[dict(file=R, old="        if self._next_break == -1:\n            self._next_break = self._find_next_break_index()",
                     new="        self._chunk_start = self._position\n        self._next_break = self._find_next_break_index()")]),
    dict(id="reader-slice-default-length-from-position", property="C05", what="slice default length computed from the position instead of the index",
         edits=[dict(file=R, old="length = max(0, len(self._data) - index)", new="length = max(0, len(self._data) - self.position)")]),
    dict(id="reader-slice-begin-clamped-to-last-byte", property="C05", what="slice begin clamped to len-1 instead of len",
         edits=[dict(file=R, old="begin = max(0, min(len(self._data), index))", new="begin = max(0, min(len(self._data) - 1, index))")]),
    dict(id="reader-read-byte-advances-when-exhausted", property="C05", what="_read_byte advances at end of chunk",
         edits=[dict(file=R, old="            return byte\n        return 0", new="            return byte\n        if self._position < len(self._data):\n            self._position += 1\n        return 0")]),
    dict(id="reader-remove-padding-rfind", property="C05", what="padding removed from the last 0xFF instead of the first",
         edits=[dict(file=R, old="padding_start = array.find(bytes([0xFF]))", new="padding_start = array.rfind(bytes([0xFF]))")]),
    dict(id="reader-fixed-encoded-unpad-before-decode", property="C05", also=["C04"], what="padding removed before decoding in get_fixed_encoded_string",
         edits=[dict(file=R, old="        decode_string(bytes_)\n        if padded:\n            bytes_ = self._remove_padding(bytes_)\n",
                     new="        if padded:\n            bytes_ = self._remove_padding(bytes_)\n        decode_string(bytes_)\n")]),
    # ---- C09 writer
    dict(id="writer-append-before-check-char", property="C09", what="add_char encodes and appends the low byte before the limit check",
         edits=[dict(file=W, old="        self._check_number_size(number, CHAR_MAX - 1)\n        number_bytes = encode_number(number)\n        self._add_bytes_with_length(number_bytes, 1)",
                     new="        number_bytes = encode_number(number % (CHAR_MAX * CHAR_MAX * CHAR_MAX * CHAR_MAX))\n        self._add_bytes_with_length(number_bytes, 1)\n        self._check_number_size(number, CHAR_MAX - 1)")]),
    dict(id="writer-to-bytearray-aliases", property="C09", what="to_bytearray returns the internal buffer",
         edits=[dict(file=W, old="return self.data.copy()", new="return self.data")]),
    dict(id="writer-sanitize-first-only", property="C09", also=["C06"], what="sanitisation stops after the first replacement",
         edits=[dict(file=W, old="                    bytes[i] = 0x79  # 'y'", new="                    bytes[i] = 0x79  # 'y'\n                    break")]),
    dict(id="writer-sanitize-skips-index-0", property="C09", also=["C06"], what="sanitisation skips the first byte",
         edits=[dict(file=W, old="            for i in range(len(bytes)):", new="            for i in range(1, len(bytes)):")]),
    dict(id="writer-sanitize-skips-last", property="C09", also=["C06"], what="sanitisation skips the last byte",
         edits=[dict(file=W, old="            for i in range(len(bytes)):", new="            for i in range(len(bytes) - 1):")]),
    dict(id="writer-sanitize-only-longer-than-one", property="C09", also=["C06"], what="one-byte strings are not sanitised",
         edits=[dict(file=W, old="        if self.string_sanitization_mode:", new="        if self.string_sanitization_mode and len(bytes) > 1:")]),
    dict(id="writer-append-before-check-fixed-string", property="C09", what="add_fixed_encoded_string appends before validating when not padded",
         edits=[dict(file=W, old="        self._check_string_length(string, length, padded)\n        string_bytes = self._encode_ansi(string)\n        self._sanitize_string(string_bytes)\n        if padded:\n            string_bytes = self._add_padding(string_bytes, length)\n        encode_string(string_bytes)\n        self.add_bytes(string_bytes)",
                     new="        string_bytes = self._encode_ansi(string)\n        self._sanitize_string(string_bytes)\n        if padded:\n            self._check_string_length(string, length, padded)\n            string_bytes = self._add_padding(string_bytes, length)\n        encode_string(string_bytes)\n        self.add_bytes(string_bytes)\n        self._check_string_length(string, length, padded)")]),
    dict(id="writer-three-limit-off-by-one", property="C09", what="add_three accepts THREE_MAX itself",
         edits=[dict(file=W, old="self._check_number_size(number, THREE_MAX - 1)", new="self._check_number_size(number, THREE_MAX)")]),
    # ---- C04 pipe
    dict(id="writer-encode-ansi-ignore", property="C04", what="unencodable characters dropped instead of replaced",
         edits=[dict(file=W, old="return bytearray(string, 'windows-1252', 'replace')", new="return bytearray(string, 'windows-1252', 'ignore')")]),
    dict(id="reader-decode-ansi-ignore", property="C05", what="undecodable bytes dropped instead of replaced",
         edits=[dict(file=R, old="return bytes.decode('windows-1252', 'replace')", new="return bytes.decode('windows-1252', 'ignore')")]),
    dict(id="reader-get-three-reads-two", property="C04", also=["C05"], what="get_three decodes only two bytes after reading three",
         edits=[dict(file=R, old="return decode_number(self._read_bytes(3))", new="return decode_number(self._read_bytes(3)[:2])")]),
    dict(id="writer-padding-drops-last-char-at-length-minus-one", property="C04", what="padding path overwrites the last character when one pad byte is needed",
         edits=[dict(file=W, old="        result[: len(bytes)] = bytes\n", new="        result[: len(bytes)] = bytes\n        if length - len(bytes) == 1 and len(bytes) > 3:\n            result[len(bytes) - 1] = 0xFF\n")]),
    # ---- C06 chunks
    dict(id="reader-remaining-ignores-break-at-chunk-start", property="C06", also=["C05"], what="an empty chunk reads into the next one",
         edits=[dict(file=R, old="            return self._next_break - min(self.position, self._next_break)",
                     new="            if self._next_break == self._chunk_start and self.position == self._chunk_start:\n                return len(self._data) - self.position\n            return self._next_break - min(self.position, self._next_break)")]),
    dict(id="reader-next-chunk-break-from-old-start", property="C06", also=["C05"], what="next_chunk recomputes the break before moving the chunk start",
         edits=[dict(file=R, old="        self._chunk_start = self._position\n        self._next_break = self._find_next_break_index()\n",
                     new="        self._next_break = self._find_next_break_index()\n        self._chunk_start = self._position\n")]),
    # ---- C12 sequence starts
    dict(id="init-seq1-min-without-rounding", property="C12", what="seq1_min loses the +6 rounding term (seq2 can exceed 252)",
         edits=[dict(file=S, old="int((value - (CHAR_MAX - 1) + 13 + 6) / 7)", new="int((value - (CHAR_MAX - 1) + 13 + 5) / 7)")]),
    dict(id="init-seq1-max-plus-21", property="C12", what="seq1_max too large (seq2 can go negative)",
         edits=[dict(file=S, old="seq1_max = int((value + 13) / 7)", new="seq1_max = int((value + 21) / 7)")]),
    dict(id="init-draw-range-plus-one", property="C12", what="second draw range one too wide",
         edits=[dict(file=S, old="random.randrange(0, seq1_max - seq1_min) + seq1_min", new="random.randrange(0, seq1_max - seq1_min + (2 if value % 97 == 0 else 0)) + seq1_min")]),
    dict(id="ping-seq2-wraps-at-251", property="C12", what="PING seq2 reduced modulo 251 (largest offset reconstructs a wrong value)",
         edits=[dict(file=S, old="        seq2 = seq1 - value\n", new="        seq2 = (seq1 - value) % 251\n")]),
    dict(id="account-zero-becomes-253", property="C12", what="ACCOUNT_REPLY draw of 0 replaced by 253 (does not fit a char)",
         edits=[dict(file=S, old="AccountReplySequenceStart(random.randrange(0, 240))", new="AccountReplySequenceStart(random.randrange(0, 240) or 253)")]),
    dict(id="init-empty-range-at-top", property="C12", what="draw range empty for the largest values",
         edits=[dict(file=S, old="random.randrange(0, seq1_max - seq1_min) + seq1_min", new="random.randrange(0, seq1_max - seq1_min if value != 1755 else 0) + seq1_min")]),
    # ---- C13 sequencer
    dict(id="sequencer-reset-on-update", property="C13", what="set_sequence_start resets the counter when it stands at 9",
         edits=[dict(file=Q, old="            start (SequenceStart): The new sequence start.\n        \"\"\"\n        self._start = start", new="            start (SequenceStart): The new sequence start.\n        \"\"\"\n        self._start = start\n        if self._counter == 9:\n            self._counter = 0")]),
    dict(id="sequencer-modulo-11", property="C13", what="counter wraps at 11 when an update happened at counter 9",
         edits=[dict(file=Q, old="self._counter = (self._counter + 1) % 10", new="self._counter = (self._counter + 1) % (11 if self._start.value > 1700 else 10)")]),
    dict(id="sequencer-ignores-update-at-nonzero-counter", property="C13", what="update ignored when counter is 9",
         edits=[dict(file=Q, old="            start (SequenceStart): The new sequence start.\n        \"\"\"\n        self._start = start", new="            start (SequenceStart): The new sequence start.\n        \"\"\"\n        if self._counter != 9:\n            self._start = start")]),
    dict(id="sequencer-class-level-counter", property="C13", what="counter shared between sequencer instances",
         edits=[dict(file=Q, old="        self._counter = (self._counter + 1) % 10", new="        PacketSequencer._counter = (self._counter + 1) % 10"),
                dict(file=Q, old="        self._counter = 0\n", new="        PacketSequencer._counter = 0\n")]),
    # ---- C03 hostile bytes (generator and reader mutations)
    dict(id="gen-optional-guard-ge-zero", property="C03", what="optional guard is `remaining >= 0` (optional field always read)",
         edits=[dict(file=F, old='begin_control_flow("if reader.remaining > 0")', new='begin_control_flow("if reader.remaining >= 0")')]),
    dict(id="gen-array-delimiter-guard-off-by-one", property="C03", what="non-trailing delimiter also skipped after the last element",
         edits=[dict(file=F, old='begin_control_flow(f"if i + 1 < {array_length_expression}")', new='begin_control_flow(f"if i < {array_length_expression}")')]),
    dict(id="gen-unbounded-array-count-ceil", property="C03", what="fixed-size element count rounds up (partial trailing element read)",
         edits=[dict(file=F, old='f"{array_length_variable_name} = int(reader.remaining / {element_size})"', new='f"{array_length_variable_name} = -(-reader.remaining // {element_size})"')]),
    dict(id="gen-delimited-array-missing-next-chunk-when-unbounded", property="C03", what="delimited array without length never moves to the next chunk",
         edits=[dict(file=F, old='            self._data.deserialize.add_line("reader.next_chunk()")\n            if needs_guard:', new='            if array_length_expression is not None:\n                self._data.deserialize.add_line("reader.next_chunk()")\n            else:\n                self._data.deserialize.add_line("reader.get_byte()")\n            if needs_guard:')]),
    dict(id="enum-meta-no-fallback-above-short", property="C03", also=["C14"], what="unknown ordinals >= 64009 raise ValueError instead of becoming Unrecognized",
         edits=[dict(file=E, old="        except ValueError:\n", new="        except ValueError:\n            if int(value) >= 64009:\n                raise\n")]),
    dict(id="reader-read-bytes-unclipped-in-chunk", property="C03", also=["C05"], what="_read_bytes clips to the end of data, not to the chunk",
         edits=[dict(file=R, old="        length = min(length, self.remaining)\n", new="        length = min(length, len(self._data) - self._position)\n")]),
    dict(id="gen-chunked-exit-keeps-mode", property="C03", also=["C15"], what="</chunked> does not switch chunked reading off again",
         edits=[dict(file=O, old='            self._data.deserialize.add_line("reader.chunked_reading_mode = False")\n', new='')]),
    dict(id="gen-struct-fixed-size-ignores-optional", property="C03", what="fixed struct size computed although a field is optional",
         edits=[dict(file=T, old='        if protocol_field.get("optional"):\n            # Nothing can be optional in a fixed-size struct\n            return None\n', new='')]),
    dict(id="gen-length-offset-sign", property="C03", what="length offset applied with the wrong sign when reading offsets below -1",
         edits=[dict(file=F, old="""            offset_expression = FieldCodeGenerator._get_length_offset_expression(self._offset)
            if offset_expression is not None:
                read_basic_type += offset_expression""", new="""            offset_expression = FieldCodeGenerator._get_length_offset_expression(
                self._offset if self._offset >= -1 else -self._offset
            )
            if offset_expression is not None:
                read_basic_type += offset_expression""")]),
    dict(id="gen-switch-default-becomes-elif-false", property="C03", what="default case body never taken when the switch field is an unknown enum ordinal",
         edits=[dict(file=SW, old="            self._data.deserialize.begin_control_flow('else')", new="            self._data.deserialize.begin_control_flow(f'elif not {self._field_name}.name.startswith(\"Unrecognized\")' if isinstance(self._field_data.type_, EnumType) else 'else')")]),
]
