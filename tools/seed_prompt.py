#!/venv/bin/python
"""Writes the instruction file handed to an independent sub-agent that seeds breaking changes
(the agent sees only this text - the property - and its scratch worktree; nothing from /verif).
  tools/seed_prompt.py <property id> <worktree> <output dir> <n changes> [--exclude-known]"""
import json
import os
import sys

HERE = os.path.dirname(os.path.dirname(os.path.abspath(__file__)))

TEMPLATE = '''You are working on the Python library Cirras/eolib-python (Endless Online protocol library: EO number/string codecs, EoReader/EoWriter, packet sequencer, and an XML-spec-driven serializer code generator under protocol_code_generator/).

YOUR WORKSPACE: a scratch git worktree at {wt} (detached checkout of the current code). Work ONLY there and in {out} (your output directory). Do not touch /repo, /verif or anything else; do not read /verif. Do not commit anything.

ENVIRONMENT NOTES
- Use /venv/bin/python. The package is installed editable from /repo/src, so ALWAYS run with PYTHONPATH={wt}/src so that your worktree's code is the one imported.
- There is no network. The eo-protocol submodule is EMPTY, so src/eolib/protocol/_generated does not exist and a plain `import eolib` fails in a pristine checkout. To exercise generated code (or `import eolib`), write a small XML spec tree yourself and run the real generator. The generator (see protocol.py) reads <root>/eo-protocol/xml and writes <root>/src/eolib/protocol/_generated; the XML tree needs a protocol.xml in each of: ., map, net, net/client, net/server, pub, pub/server; net/protocol.xml must define the enums PacketFamily and PacketAction (type="byte"); packets (<packet family=".." action="..">) live only in net/client and net/server. XML grammar: <protocol> containing <enum name type><value name>N</value></enum>, <struct name>, <packet family action>; instructions: <field name type [length] [padded] [optional]>, <array name type [length] [optional] [delimited] [trailing-delimiter]>, <length name type [offset]>, <dummy type>V</dummy>, <switch field><case value|default>..</case></switch>, <chunked>..</chunked>, <break/>; basic types byte char short three int bool string encoded_string blob. Read protocol_code_generator/ to see what is accepted. IMPORTANT: do the generation in a TEMPORARY COPY (copy src/, protocol_code_generator/, protocol.py into a temp dir, put your XML under <tmp>/eo-protocol/xml, run `/venv/bin/python protocol.py generate` there with PYTHONPATH=<tmp>/src) - never leave generated files inside {wt}.
- Existing test suite: cd {wt} && PYTHONPATH={wt}/src /venv/bin/python -m pytest -q -p no:cacheprovider --continue-on-collection-errors   -> must print "140 passed, 2 errors" (the 2 collection errors are pre-existing and expected; they must stay exactly as they are).

THE PROPERTY ({pid}: {title})
{statement}
Scope: {quant}

YOUR TASK
Produce {n} different, realistic source changes to the library (the kind of bug a maintainer could plausibly introduce: a refactoring slip, off-by-one, wrong condition, a missed case, an optimisation or cache with a hole, a reordering). Each change must break the property above while (a) everything still imports / generates / compiles and (b) the existing test suite still reports exactly "140 passed, 2 errors". Strongly prefer changes that need something SPECIFIC to manifest - a particular order or interleaving of operations, a failure/exception at a particular point, a multi-step sequence, an unusual input or boundary value, a particular spec shape, or two cooperating sites that each look fine alone - NOT changes that any ordinary use would expose at once. The changes should be in different places / of different character.
{exclude}
For each change k in 1..{n} write into {out}/<k>/ :
  - patch.diff : `git diff` against HEAD of the worktree (must apply cleanly with `git apply` on a pristine checkout; source files only).
  - demo.py    : small standalone program, usage `/venv/bin/python demo.py <repo_root>`; it must copy what it needs from <repo_root> (src/, protocol_code_generator/, protocol.py) into a temporary directory, build whatever it needs there (never write inside <repo_root>), import the code from that temp copy (put it first on sys.path / use a subprocess with PYTHONPATH), and exit 0 printing "property holds" when the property holds, exit 1 printing what went wrong when it is violated. It must exit 0 on the unmodified checkout and exit 1 with your patch applied.
  - README.md  : 5-15 lines: what the change is, which part of the property it breaks, and exactly what is needed for it to manifest.
Verify BOTH directions yourself for each change (pristine -> demo exits 0 and tests pass; patched -> demo exits 1 and tests still 140 passed, 2 errors). At the end restore the worktree to pristine (`git -C {wt} checkout -- .` and delete any untracked files you created there). In your final message list the files you wrote and one line per change saying what it needs to manifest.
'''


def main():
    pid, wt, out, n = sys.argv[1], sys.argv[2], sys.argv[3], int(sys.argv[4])
    props = {json.loads(l)["id"]: json.loads(l) for l in open(os.path.join(HERE, "properties.jsonl"))}
    p = props[pid]
    exclude = ""
    if "--exclude-known" in sys.argv:
        seen = []
        base = os.path.join(HERE, "seeded")
        for sid in sorted(os.listdir(base)):
            if sid.split("-")[0] == pid:
                lines = [l.strip() for l in open(os.path.join(base, sid, "README.md")) if l.strip()]
                seen.append("  * " + " ".join(lines[:5])[:500])
        files = sorted({f for sid in sorted(os.listdir(base)) if sid.split("-")[0] == pid
                        for f in json.load(open(os.path.join(base, sid, "meta.json"))).get("files_touched", [])})
        if seen:
            exclude = ("\nCHANGES ALREADY PROPOSED BY SOMEONE ELSE - do NOT repeat these or close variants (same site or same "
                       "mechanism); find different sites, different mechanisms, different things needed to manifest:\n"
                       + "\n".join(seen) + "\n\nFiles those proposals touched: " + ", ".join(files)
                       + ". At least one of your changes should live in a file NOT in that list, if a realistic one exists there "
                         "(look at every file the property could depend on, including less obvious ones).\n")
    sys.stdout.write(TEMPLATE.format(wt=wt, out=out, pid=pid, title=p["title"], statement=p["statement"],
                                     quant=p["quantifier"]["text"], n=n, exclude=exclude))


if __name__ == "__main__":
    main()
