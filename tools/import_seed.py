#!/venv/bin/python
"""Imports the output of a seeding sub-agent into /verif/seeded/ and removes its scratch worktree.
  tools/import_seed.py <round> <property id> [<property id> ...]
expects /tmp/seed<round>-<ID>/<n>/{patch.diff,demo.py,README.md} and the worktree /tmp/wt<round>-<ID>."""
import json
import os
import re
import shutil
import subprocess
import sys

HERE = os.path.dirname(os.path.dirname(os.path.abspath(__file__)))
SOURCE = ("independent sub-agent given only the property text, a scratch worktree, one-paragraph descriptions of the "
          "earlier rounds' changes to avoid and the list of files they touched")


def main():
    rnd = int(sys.argv[1])
    for pid in sys.argv[2:]:
        out = f"/tmp/seed{rnd}-{pid}"
        for n in sorted(os.listdir(out)) if os.path.isdir(out) else []:
            src = os.path.join(out, n)
            if not os.path.exists(os.path.join(src, "patch.diff")):
                continue
            dst = os.path.join(HERE, "seeded", f"{pid}-r{rnd}-{n}")
            os.makedirs(dst, exist_ok=True)
            for fn in ("patch.diff", "demo.py", "README.md"):
                if os.path.exists(os.path.join(src, fn)):
                    shutil.copy(os.path.join(src, fn), os.path.join(dst, fn))
            patch = open(os.path.join(dst, "patch.diff"), encoding="utf-8").read()
            files = sorted(set(re.findall(r"^\+\+\+ b/(\S+)", patch, flags=re.M)))
            readme = os.path.join(dst, "README.md")
            needs = ""
            if os.path.exists(readme):
                lines = [l.strip() for l in open(readme, encoding="utf-8") if l.strip()]
                needs = lines[0] if lines else ""
            meta = {"property": pid, "round": rnd, "source": SOURCE, "needs": needs, "files_touched": files}
            with open(os.path.join(dst, "meta.json"), "w", encoding="utf-8") as f:
                json.dump(meta, f, indent=1)
            print("imported", os.path.basename(dst), files)
        wt = f"/tmp/wt{rnd}-{pid}"
        if os.path.isdir(wt):
            subprocess.run(["git", "-C", "/repo", "worktree", "remove", "--force", wt], check=False)
        shutil.rmtree(out, ignore_errors=True)
        for f in (f"/tmp/prompt{rnd}-{pid}.txt",):
            if os.path.exists(f):
                os.remove(f)


if __name__ == "__main__":
    main()
